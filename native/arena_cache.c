/* A caching arena allocator for CPython (installed through the public PyObject_SetArenaAllocator API).
 *
 * CPython 3.12 takes every 16 KiB "data stack chunk" of the interpreter's frame stack from the arena
 * allocator (mmap) and gives it back (munmap) as soon as the recursion pops below it.  A recursive AST
 * interpreter such as pyvc crosses a chunk boundary hundreds of thousands of times per proof task, and in
 * this sandbox mmap/munmap are ~40x slower when 16 processes do them at once.  This allocator keeps freed
 * blocks of the common sizes on a free list instead of unmapping them.  It changes no Python semantics.
 */
#define PY_SSIZE_T_CLEAN
#include <Python.h>
#include <sys/mman.h>

#define NCLASS 2
static const size_t klass[NCLASS] = {16384, 32768};
#define MAXFREE 256
static void *freelist[NCLASS][MAXFREE];
static int nfree[NCLASS];

static void *cache_alloc(void *ctx, size_t size) {
    for (int k = 0; k < NCLASS; k++) {
        if (size == klass[k] && nfree[k] > 0) {
            return freelist[k][--nfree[k]];
        }
    }
    void *p = mmap(NULL, size, PROT_READ | PROT_WRITE, MAP_PRIVATE | MAP_ANONYMOUS, -1, 0);
    return p == MAP_FAILED ? NULL : p;
}

static void cache_free(void *ctx, void *ptr, size_t size) {
    for (int k = 0; k < NCLASS; k++) {
        if (size == klass[k] && nfree[k] < MAXFREE) {
            freelist[k][nfree[k]++] = ptr;
            return;
        }
    }
    munmap(ptr, size);
}

int pyvc_install_arena_cache(void) {
    PyObjectArenaAllocator a;
    a.ctx = NULL;
    a.alloc = cache_alloc;
    a.free = cache_free;
    PyObject_SetArenaAllocator(&a);
    return 0;
}
