#!/bin/sh
# Builds the overlay virtualenv /verif/.venv offline (z3-solver, cvc5, jsonschema from the
# wheelhouse + the repository's own site-packages through a .pth file).  Idempotent.
set -e
cd "$(dirname "$0")"
if [ -x .venv/bin/python ] && .venv/bin/python -c "import z3, jsonschema, yaml" 2>/dev/null; then
  exit 0
fi
rm -rf .venv
/root/.pyenv/versions/3.12.1/bin/python -m venv .venv
PIP_NO_INDEX=1 .venv/bin/pip install -q --no-index --find-links /opt/veriftools/wheels z3-solver cvc5 jsonschema
echo "import site; site.addsitedir('/venv/lib/python3.12/site-packages')" > .venv/lib/python3.12/site-packages/_repo_deps.pth
.venv/bin/python -c "import z3, jsonschema, yaml; print('pyvc venv ready, z3', z3.get_version_string())"
