#!/bin/sh
# Builds the overlay virtualenv /verif/.venv offline (z3-solver, cvc5, jsonschema from the
# wheelhouse + the repository's own site-packages through a .pth file).  Idempotent.
set -e
cd "$(dirname "$0")"
build_native() {
  # optional speed-up (see native/arena_cache.c); the checks work without it
  if [ ! -f .venv/arena_cache.so ] || [ native/arena_cache.c -nt .venv/arena_cache.so ]; then
    inc=$(.venv/bin/python -c "import sysconfig;print(sysconfig.get_paths()['include'])" 2>/dev/null) || return 0
    for cc in gcc cc clang clang-14; do
      if command -v $cc >/dev/null 2>&1; then
        $cc -O2 -shared -fPIC -I"$inc" native/arena_cache.c -o .venv/arena_cache.so 2>/dev/null && return 0
      fi
    done
  fi
  return 0
}
if [ -x .venv/bin/python ] && .venv/bin/python -c "import z3, jsonschema, yaml" 2>/dev/null; then
  build_native
  exit 0
fi
rm -rf .venv
/root/.pyenv/versions/3.12.1/bin/python -m venv .venv
PIP_NO_INDEX=1 .venv/bin/pip install -q --no-index --find-links /opt/veriftools/wheels z3-solver cvc5 jsonschema
echo "import site; site.addsitedir('/venv/lib/python3.12/site-packages')" > .venv/lib/python3.12/site-packages/_repo_deps.pth
build_native
.venv/bin/python -c "import z3, jsonschema, yaml; print('pyvc venv ready, z3', z3.get_version_string())"
