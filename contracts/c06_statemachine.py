"""C06 -- the peer state machine follows RFC 6733 as implemented and opens only for the configured peer.

One contract per state class `run()` (= one tick): for EVERY header of the message at the head of the
received queue (all 2^8 flag bytes x 2^24 command codes), both verdicts of the validators, both roles,
both values of the local-stop and peer-disconnect signals, any number of further queued messages:

    next state, messages emitted (ghost event log: put / flush), activity flag, what reaches the
    application queue.

The reference transition relation is written out clause by clause below (`expected ...`), taken from the
property statement.  Around the ticks:
  * PeerStateMachine.get_next_state -- a transition into Closed from any other state stops the machine and
    releases the association (ghost log: close), unknown names raise, otherwise the state object of that
    name; DiameterAssociation.close releases the transport.
  * get_current_state -- the reported string, by role.
  * validators -- totality over every AVP (never raise) and "valid => Origin-Host equals the configured
    peer" (per-AVP contracts deductive; the counting of whole messages bounded, see table).
  * tracking_events -- an idle open connection emits the watchdog request after the configured timeout.

Histories (sequences of ticks) are the composition of these per-tick contracts by the loop in
PeerStateMachine.__start: `run(); state = get_next_state(next_state)`.  That loop runs in a thread of its
own and is NOT executed here; that every history is a chain of contract-respecting ticks is the modular
argument, valid for one thread of control.
"""
from pyvc.api import contract, T, table
from pyvc.spec import implies, unbe, be, ghost_get, ghost_set, is_instance_of, event_log
import bromelia.base as B
import bromelia.statemachine as SM
import bromelia.process as P
import bromelia.setup as S
import bromelia.transport as TR
from bromelia.config import (CLOSED, WAIT_CONN_ACK, WAIT_I_CEA, OPEN, WAIT_RETURNS, WAIT_CONN_ACK_ELECT,
                             CLOSING, I_OPEN, R_OPEN)
from bromelia.exceptions import ProcessRequestException
from contracts.assoc import association, inbound, CMD_CE, CMD_DW, CMD_DP, transport
from contracts.c07_base_answers import state_obj, link, count

ANY_HEAD = inbound()          # any flags byte, any command code


def recv_cases():
    return T.OneOf(T.Sync("queue"), T.Sync("queue", items=[ANY_HEAD], extra=True))


def is_req(m):
    return unbe(m._header._flags) & 0x80 == 0x80


def cmd(m):
    return m._header._command_code


def head(self):
    q = ghost_get("rq0")
    return q[0] if len(q) > 0 else None


def snap(self):
    return ghost_set("rq0", list(self.association._recv_messages.st["items"])) \
        and ghost_set("pq0", list(self.association.postprocess_recv_messages.st["items"])) \
        and link(self)


def verdict(log):
    """the validator's verdict on this tick, read back from what followed it: None when no validator ran"""
    return None


def consumed_head(self):
    q0 = ghost_get("rq0")
    return self.association._recv_messages.st["items"] == q0[1:]


def untouched_queue(self):
    return self.association._recv_messages.st["items"] == ghost_get("rq0")


def nothing_for_the_application(self):
    return self.association.postprocess_recv_messages.st["items"] == ghost_get("pq0")


def kinds(log):
    return [e[0] for e in log]


def sent(log):
    """the message objects handed to the send queue on this tick, in order"""
    return [e[1] for e in log if e[0] == "put"]


# ------------------------------------------------------------------ Closed
@contract("bromelia.statemachine.Closed.run", prop="C06", name="tick")
class _ClosedRun:
    args = {"self": state_obj(SM.Closed, T.NoneS, recv=recv_cases(), send=T.Sync("queue", extra=True))}
    setup_spec = snap

    def ensures_client_starts_connecting(self):
        a = self.association
        return implies(a.connection.mode == "CLIENT",
                       self.next_state == WAIT_CONN_ACK and len(event_log()) == 0 and untouched_queue(self))

    def ensures_server_waits_for_a_cer(self):
        a, h = self.association, head(self)
        return implies(a.connection.mode == "SERVER" and h is None,
                       self.next_state == CLOSED and len(event_log()) == 0)

    def ensures_server_opens_only_on_a_valid_cer(self, old):
        a, h, log = self.association, head(self), event_log()
        if a.connection.mode != "SERVER" or h is None:
            return True
        if is_req(h) and cmd(h) == CMD_CE:
            # valid CER: CEA queued and flushed, Open, active; invalid: nothing sent, stays Closed
            opened = self.next_state == OPEN and a.state_is_active == True \
                and kinds(log) == ["validate", "put", "flush"] and sent(log)[0] is a.base.cea
            refused = self.next_state == CLOSED and kinds(log) == ["validate"] \
                and a.state_is_active == old.self.association.state_is_active
            return consumed_head(self) and (opened or refused)
        # anything else is dropped
        return consumed_head(self) and self.next_state == CLOSED and len(log) == 0

    def ensures_name_and_application_queue(self):
        return self.name == CLOSED and nothing_for_the_application(self)

    def exceptional(exc):
        return False

    def control_opens_without_cer(self):
        return self.next_state == OPEN


# ------------------------------------------------------------------ Wait-Conn-Ack
def test_conn_entry(self):
    return ("test_connection",)


@contract("bromelia.transport.TcpConnection.test_connection", prop="C06", name="summary")
class _TestConnection:
    args = {"self": T.Obj(TR.TcpClient, idict={})}
    at_calls = True
    log_entry = test_conn_entry
    returns = T.Bool()
    proof = "table"
    assumes = ("TcpConnection.test_connection reports whether the non-blocking connect completed (socket call, "
               "not modelled): any boolean",)


@contract("bromelia.statemachine.WaitConnAck.run", prop="C06", name="tick")
class _WaitConnAckRun:
    args = {"self": state_obj(SM.WaitConnAck, T.NoneS, mode=T.Const("CLIENT"), recv=recv_cases(),
                              send=T.Sync("queue", extra=True),
                              transport_shape=T.OneOf(T.NoneS, transport()))}
    setup_spec = snap

    def ensures_connect_ack_sends_the_cer(self):
        """connect part of the tick, then at most one received message is looked at: only a valid CER matters
        (simultaneous open: the election states are stubs in this code base, only their names are reached)"""
        a, log, h = self.association, event_log(), head(self)
        k = kinds(log)
        if a.transport is None:
            connect, after = k[:0], WAIT_CONN_ACK
        elif k[:3] == ["test_connection", "put", "flush"] and sent(log)[0] is a.base.cer:
            connect, after = k[:3], WAIT_I_CEA
        elif k[:1] == ["test_connection"]:
            connect, after = k[:1], CLOSED
        else:
            return False
        rest = k[len(connect):]
        if h is None:
            return rest == [] and self.next_state == after and untouched_queue(self)
        if is_req(h) and cmd(h) == CMD_CE:
            return consumed_head(self) and rest == ["validate"] \
                and (self.next_state == WAIT_CONN_ACK_ELECT or self.next_state == after)
        return consumed_head(self) and rest == [] and self.next_state == after

    def ensures_name_and_application_queue(self):
        return self.name == WAIT_CONN_ACK and nothing_for_the_application(self)

    def exceptional(exc):
        return False

    def control_opens(self):
        return self.next_state == OPEN


# ------------------------------------------------------------------ Wait-I-CEA
@contract("bromelia.statemachine.WaitInitiatorCEA.run", prop="C06", name="tick")
class _WaitICEARun:
    args = {"self": state_obj(SM.WaitInitiatorCEA, T.NoneS, mode=T.Const("CLIENT"), recv=recv_cases(),
                              send=T.Sync("queue", extra=True))}
    setup_spec = snap

    def ensures_waits(self):
        return implies(head(self) is None, self.next_state == WAIT_I_CEA and len(event_log()) == 0)

    def ensures_opens_only_on_a_valid_cea(self, old):
        a, h, log = self.association, head(self), event_log()
        if h is None:
            return True
        if not is_req(h) and cmd(h) == CMD_CE:
            opened = self.next_state == OPEN and a.state_is_active == True
            waiting = self.next_state == WAIT_I_CEA and a.state_is_active == old.self.association.state_is_active
            return consumed_head(self) and kinds(log) == ["validate"] and (opened or waiting)
        if is_req(h) and cmd(h) == CMD_CE:
            # simultaneous open (election): not implemented beyond naming the state
            return consumed_head(self) and kinds(log) == ["validate"] \
                and (self.next_state == WAIT_RETURNS or self.next_state == WAIT_I_CEA)
        # anything but a CEA while awaiting one closes the connection
        return consumed_head(self) and self.next_state == CLOSED and len(log) == 0

    def ensures_name_and_application_queue(self):
        return self.name == WAIT_I_CEA and nothing_for_the_application(self) and count(event_log(), "put") == 0

    def exceptional(exc):
        return False

    def control_non_cea_keeps_waiting(self):
        h = head(self)
        return implies(h is not None and cmd(h) != CMD_CE, self.next_state == WAIT_I_CEA)


# ------------------------------------------------------------------ Closing
@contract("bromelia.statemachine.Closing.run", prop="C06", name="tick")
class _ClosingRun:
    args = {"self": state_obj(SM.Closing, T.NoneS, recv=recv_cases(), send=T.Sync("queue", extra=True))}
    setup_spec = snap

    def ensures_waits_for_the_dpa(self):
        a, h, log = self.association, head(self), event_log()
        if h is None:
            return self.next_state == CLOSING and len(log) == 0
        if not is_req(h) and cmd(h) == CMD_DP:
            return consumed_head(self) and self.next_state == CLOSED and a._stop_threads == True \
                and a.postprocess_recv_messages_ready.st["flag"] == True and len(log) == 0
        return consumed_head(self) and self.next_state == CLOSING and len(log) == 0

    def ensures_name_and_application_queue(self):
        return self.name == CLOSING and nothing_for_the_application(self)

    def exceptional(exc):
        return False

    def control_closes_on_anything(self):
        return implies(head(self) is not None, self.next_state == CLOSED)


# ------------------------------------------------------------------ Open
from bromelia.avps.ietf.rfc6733 import DestinationHostAVP, DestinationRealmAVP     # noqa: E402


def _dict_avp(cls, data):
    return T.Obj(cls, slots={"_flags": T.Const(b"\x40"), "_data": data, "_vendor_id": T.NoneS, "_padding": T.NoneS},
                 idict={"code": T.Const(cls.code), "vendor_id": T.NoneS})


def app_or_base_head():
    """any header; no AVPs, or a Destination-Host / Destination-Realm AVP with any content (the request
    routing check of process_request looks at those)"""
    return T.Obj(B.DiameterMessage, idict={
        "_header": __import__("contracts.common", fromlist=["x"]).header_shape(),
        "_avps": T.OneOf(T.ListOf(), T.ListOf(_dict_avp(DestinationHostAVP, T.Bytes(minlen=1, maxlen=64))),
                         T.ListOf(_dict_avp(DestinationRealmAVP, T.Bytes(minlen=1, maxlen=64)))),
        "_loaded": T.Const(True)})


def open_recv_cases():
    return T.OneOf(T.Sync("queue"), T.Sync("queue", items=[app_or_base_head()], extra=True))


def is_base(h):
    c = cmd(h)
    return c == CMD_CE or c == CMD_DW or c == CMD_DP


def handled_base(h):
    c = cmd(h)
    return c == CMD_DW or c == CMD_CE or (c == CMD_DP and is_req(h))


def addressed_here(a, h):
    """answers always; a request with a Destination-Host must name the local host, one with only a
    Destination-Realm the local realm, one with neither is for local consumption"""
    if not is_req(h):
        return True
    host, realm = None, None
    for x in h._avps:
        if is_instance_of(x, DestinationHostAVP):
            host = x
        elif is_instance_of(x, DestinationRealmAVP):
            realm = x
    if host is not None:
        return host._data == a.connection.local_node.host_name.encode("utf-8")
    if realm is not None:
        return realm._data == a.connection.local_node.realm.encode("utf-8")
    return True


def snap_open(self):
    a = self.association
    return snap(self) and ghost_set("stop0", not a.state_is_active) \
        and ghost_set("peer0", a.transport._stop_threads) \
        and ghost_set("idle0", len(a.transport.events) == 0 and a.transport.tracking_events_count >= a.watchdog_timeout) \
        and ghost_set("send0", not a._send_messages.empty())


def taken(log):
    for e in log:
        if e[0] == "take":
            return e[1]
    return None


@contract("bromelia.statemachine.Open.run", prop="C06", name="tick", also=("C03",))
class _OpenRun:
    args = {"self": state_obj(SM.Open, T.NoneS, mode=T.Const("CLIENT"), recv=open_recv_cases(),
                              send=T.Sync("queue", extra=True))}
    setup_spec = snap_open

    def ensures_watchdog_after_idle_timeout(self):
        a, log = self.association, event_log()
        if ghost_get("idle0"):
            return len(log) >= 1 and log[0][0] == "put" and log[0][1] is a.base.dwr \
                and a.transport.tracking_events_count == 0
        return count(log, "put") == 0 or log[0][0] != "put" or log[0][1] is not a.base.dwr

    def ensures_local_stop_sends_one_dpr_and_waits_for_the_dpa(self):
        a, log = self.association, event_log()
        dprs = [e for e in log if e[0] == "put" and e[1] is a.base.dpr]
        if ghost_get("stop0"):
            return len(dprs) == 1 and self.next_state == CLOSING
        return len(dprs) == 0

    def ensures_received_dpr_is_answered_and_closes(self):
        a, log, h = self.association, event_log(), taken(event_log())
        if h is None or not (is_req(h) and cmd(h) == CMD_DP):
            return True
        answered = [e for e in log if e[0] == "put" and e[1] is a.base.dpa]
        return (self.next_state == CLOSED or ghost_get("stop0")) and a._stop_threads == True \
            and len(answered) <= 1 and count(log, "validate") == 1

    def ensures_peer_disconnect_closes(self):
        # with nothing left to do on this tick the connection closes (queued work is drained first)
        h = taken(event_log())
        return implies(ghost_get("peer0") and not ghost_get("stop0") and not ghost_get("send0")
                       and not ghost_get("idle0") and h is None and len(ghost_get("rq0")) == 0,
                       self.next_state == CLOSED)

    def ensures_application_gets_what_is_addressed_to_it(self):
        """a message that is none of DWR/DWA/DPR/CER/CEA is handed to the application -- once -- unless it is a
        request addressed to another node (discarded); handled base messages never reach the application"""
        a, h = self.association, taken(event_log())
        pq = a.postprocess_recv_messages.st["items"]
        if h is not None and not handled_base(h) and addressed_here(a, h):
            return pq == ghost_get("pq0") + [h] and a.postprocess_recv_messages_ready.st["flag"] == True
        return pq == ghost_get("pq0")

    def ensures_stays_open_otherwise(self):
        h = taken(event_log())
        quiet = not ghost_get("stop0") and not ghost_get("peer0")
        if not quiet:
            return True
        if h is None:
            return self.next_state == OPEN
        if is_req(h) and cmd(h) == CMD_DP:
            return True
        if not is_req(h) and cmd(h) == CMD_DW:
            return self.next_state == OPEN or self.next_state == CLOSING     # invalid DWA: Closing
        return self.next_state == OPEN

    def ensures_name(self):
        return self.name == OPEN and self.msg is None

    def exceptional(exc):
        return False

    def control_never_closes(self):
        return self.next_state == OPEN


# ------------------------------------------------------------------ transition function, reported state, release
ALL_STATES = [(CLOSED, SM.Closed), (WAIT_CONN_ACK, SM.WaitConnAck), (WAIT_I_CEA, SM.WaitInitiatorCEA),
              (OPEN, SM.Open), (WAIT_RETURNS, SM.WaitReturns), (WAIT_CONN_ACK_ELECT, SM.WaitConnAckElect),
              (CLOSING, SM.Closing)]


def _state_stub(name, cls):
    return T.Obj(cls, idict={"name": T.Const(name), "next_state": T.Const(name)})


def _psm(current=None):
    return T.Obj(SM.PeerStateMachine, idict={
        "association": association(mode=T.OneOf(T.Const("CLIENT"), T.Const("SERVER")), recv=T.Sync("queue"),
                                   send=T.Sync("queue")),
        "states": T.DictOf2({n: _state_stub(n, c) for n, c in ALL_STATES}),
        "current_state": T.NoneS, "is_running": T.Const(True)})


def _pick_current(ctx, ns):
    """current_state is one of the seven state objects of the table (typed cases)"""
    k = ctx.choose(len(ALL_STATES), "current_state")
    ctx.case_log.append(("current_state", k))
    ctx.shape_choice["current_state"] = k
    ns["self"].idict["current_state"] = ns["self"].idict["states"][ALL_STATES[k][0]]


def pick_current_native(self, _k=0):
    return True


def close_entry(self):
    return ("close",)


@contract("bromelia.setup.DiameterAssociation.close", prop="C06", name="at-call")
class _AssocCloseSummary:
    args = {"self": association()}
    at_calls = True
    log_entry = close_entry
    returns = T.NoneS
    proof = "table"
    assumes = ("at the call in get_next_state, DiameterAssociation.close is summarised by its own contract "
               "C06/setup.DiameterAssociation.close[release]",)


@contract("bromelia.statemachine.PeerStateMachine.get_next_state", prop="C06", name="_")
class _GetNextState:
    # (unknown names as two concrete representatives: a symbolic string here made the verdict depend on how fast the
    # string solver answers under load)
    args = {"self": _psm(), "next_state": T.OneOf(*([T.Const(n) for n, _ in ALL_STATES]
                                                    + [T.Const("Bogus"), T.Const("")]))}
    setup = _pick_current

    def ensures_state_object_of_that_name(self, next_state, result):
        return result is self.states[next_state]

    def ensures_entering_closed_stops_and_releases(self, next_state, old):
        leaving = next_state == CLOSED and old.self.current_state.name != CLOSED
        if leaving:
            return self.is_running == False and [e[0] for e in event_log()] == ["close"]
        return self.is_running == True and len(event_log()) == 0

    def exceptional(self, next_state, exc):
        known = False
        for n, _c in ALL_STATES:
            known = known or next_state == n
        return is_instance_of(exc, TypeError) and not known

    def control_never_releases(self):
        return len(event_log()) == 0


def tclose_entry(self):
    return ("transport-close",)


@contract("bromelia.transport.TcpConnection.close", prop="C06", name="summary")
class _TransportClose:
    args = {"self": T.Obj(TR.TcpClient, idict={})}
    at_calls = True
    log_entry = tclose_entry
    returns = T.NoneS
    proof = "table"
    assumes = ("TcpConnection.close unregisters and closes the sockets (operating-system calls, not modelled)",)


@contract("bromelia.setup.DiameterAssociation.close", prop="C06", name="release")
class _AssocClose:
    """Closed implies the transport has been released"""
    args = {"self": association(mode=T.Const("CLIENT"), recv=T.Sync("queue"), send=T.Sync("queue"))}

    def ensures_transport_released(self):
        return [e[0] for e in event_log()] == ["transport-close"] and self.transport is None \
            and self._stop_threads == True and self.state_is_active == False

    def exceptional(exc):
        return False

    def control_keeps_transport(self):
        return self.transport is not None


def _psm_for_report(cls, mode):
    return T.Obj(SM.PeerStateMachine, idict={
        "association": association(mode=T.Const(mode), recv=T.Sync("queue"), send=T.Sync("queue")),
        "current_state": T.Obj(cls, idict={})})


def _reported(cls, name):
    for mode in ("CLIENT", "SERVER"):
        want = name if cls is not SM.Open else (I_OPEN if mode == "CLIENT" else R_OPEN)

        @contract("bromelia.statemachine.PeerStateMachine.get_current_state", prop="C06",
                  name="%s-%s" % (cls.__name__, mode.lower()))
        class _R:
            args = {"self": _psm_for_report(cls, mode)}

            def ensures_reported(result, _want=want):
                return result == _want

            def exceptional(exc):
                return False


for _n, _c in ALL_STATES:
    _reported(_c, _n)


# ------------------------------------------------------------------ validators: identity and totality
from contracts.common import generic_avp_shape          # noqa: E402
from contracts.assoc import connection                  # noqa: E402
from bromelia.constants import ORIGIN_HOST_AVP_CODE, ORIGIN_REALM_AVP_CODE     # noqa: E402


def _peer_identity_ascii(connection):
    # DiameterIdentity is an FQDN: no U+FFFD (the stand-in character for undecodable bytes) in it
    return "�" not in connection.peer_node.host_name and "�" not in connection.peer_node.realm


@contract("bromelia.process.ProcessDiameterMessage.is_valid_origin_host_avp", prop="C06", name="_")
class _ValidOriginHost:
    """accepted only when it IS an Origin-Host AVP naming the configured peer; total on every AVP"""
    args = {"avp": generic_avp_shape(data=T.Bytes(maxlen=128)), "connection": connection(mode=T.Const("SERVER"))}

    def requires(connection):
        return _peer_identity_ascii(connection)

    def ensures_accepts_only_the_configured_peer(avp, connection, result):
        return implies(result == True, avp._code == ORIGIN_HOST_AVP_CODE
                       and avp._data == connection.peer_node.host_name.encode("utf-8"))

    def ensures_boolean_or_nothing(result):
        return result is None or result == True or result == False

    def exceptional(exc):
        return False

    def control_accepts_any_origin_host(avp, result):
        return implies(avp._code == ORIGIN_HOST_AVP_CODE, result == True)


@contract("bromelia.process.ProcessDiameterMessage.is_valid_origin_realm_avp", prop="C06", name="_")
class _ValidOriginRealm:
    args = {"avp": generic_avp_shape(data=T.Bytes(maxlen=128)), "connection": connection(mode=T.Const("SERVER"))}

    def requires(connection):
        return _peer_identity_ascii(connection)

    def ensures_accepts_only_the_configured_realm(avp, connection, result):
        return implies(result == True, avp._code == ORIGIN_REALM_AVP_CODE
                       and avp._data == connection.peer_node.realm.encode("utf-8"))

    def ensures_boolean_or_nothing(result):
        return result is None or result == True or result == False

    def exceptional(exc):
        return False


# ------------------------------------------------------------------ whole-message verdicts (bounded)
import itertools as _it      # noqa: E402
import os as _os             # noqa: E402


def _alphabet():
    from bromelia.base import DiameterAVP
    from bromelia.avps import (OriginHostAVP, OriginRealmAVP, HostIpAddressAVP, VendorIdAVP, ProductNameAVP,
                               OriginStateIdAVP, ResultCodeAVP, DisconnectCauseAVP)
    return [("OH+", lambda: OriginHostAVP("peer.example")), ("OH-", lambda: OriginHostAVP("intruder.example")),
            ("OHx", lambda: DiameterAVP(code=264, flags=0x40, data=b"\xff\xfe")),
            ("OR+", lambda: OriginRealmAVP("example")), ("OR-", lambda: OriginRealmAVP("elsewhere")),
            ("IP", lambda: HostIpAddressAVP("10.0.0.2")), ("VI", lambda: VendorIdAVP(10415)),
            ("PN", lambda: ProductNameAVP("x")), ("OS", lambda: OriginStateIdAVP(1)),
            ("RC", lambda: ResultCodeAVP(2001)), ("DC", lambda: DisconnectCauseAVP())]


@table("validator-verdicts", prop="C06")
def validator_verdicts():
    """every AVP sequence up to a length bound over an 11-symbol alphabet (right / wrong / undecodable
    Origin-Host, right / wrong Origin-Realm, the other CER/DWR/DPR AVPs), as request and as answer, through
    the REAL validators: never raises; accepted => the configured Origin-Host AND Origin-Realm are present"""
    from bromelia.base import DiameterMessage, DiameterHeader
    from bromelia.process import BaseMessageProcessor
    from bromelia._internal_utils import Connection, LocalNode, PeerNode
    depth = 6 if _os.environ.get("VERIF_TIER") == "thorough" else 5
    conn = Connection(name="x", mode="SERVER", transport_type="TCP",
                      local_node=LocalNode("local.example", "example", "127.0.0.1", 3868),
                      peer_node=PeerNode("peer.example", "example", "127.0.0.2", 3868),
                      application_ids=[], watchdog_timeout=30)

    class Assoc(object):
        pass
    a = Assoc()
    a.connection, a.end_to_end_identifiers, a.pending_requests = conn, [], {}
    proc = BaseMessageProcessor(a)
    alpha = _alphabet()
    objs = {k: f() for k, f in alpha}
    names = [k for k, _ in alpha]
    raised, no_host, no_realm, checked = [], {}, {}, 0
    for cmdcode, fn in ((257, proc.is_valid_capability_exchange), (280, proc.is_valid_device_watchdog),
                        (282, proc.is_valid_disconnect_peer)):
        for flags in (0x80, 0x00):
            hdr = DiameterHeader(command_code=cmdcode, flags=flags)
            msg = DiameterMessage(hdr, [])
            key = "%d %s" % (cmdcode, "request" if flags else "answer")
            for n in range(0, depth + 1):
                for seq in _it.combinations_with_replacement(names, n):   # the validators count: order-free
                    msg._avps = [objs[k] for k in seq]
                    checked += 1
                    try:
                        ok = fn(msg)
                    except BaseException as e:  # noqa
                        if len(raised) < 4:
                            raised.append((cmdcode, hex(flags), list(seq), type(e).__name__))
                        continue
                    # (the report lists sequences of up to 5 AVPs only, so that it reads the same at every depth)
                    if ok and "OH+" not in seq:
                        no_host.setdefault(key if n <= 5 else key + " (longer)", "+".join(seq) or "(no AVP)")
                    if ok and "OR+" not in seq:
                        no_realm.setdefault(key if n <= 5 else key + " (longer)", "+".join(seq) or "(no AVP)")

    def show(d):
        return "; ".join("%s: %s" % kv for kv in sorted(d.items()) if not kv[0].endswith("(longer)"))
    return [("validators-never-raise", not raised, {"checked": checked, "raised": raised}),
            ("accepted-implies-configured-origin-host", not no_host,
             "accepted without the configured Origin-Host (first per command) -- " + show(no_host)),
            ("accepted-implies-configured-origin-realm", not no_realm,
             "accepted without the configured Origin-Realm (first per command) -- " + show(no_realm))]


validator_verdicts.bounded = ("AVP multisets of size <= 5 over an 11-symbol alphabet x {CER,CEA,DWR,DWA,DPR,DPA}, "
                              "native run of the real validators")


# ------------------------------------------------------------------ peer disconnect outside Open (known finding)
def _peer_gone(cls, name, label):
    from contracts.assoc import transport as _tr
    tr = T.Obj(TR.TcpClient, idict={"is_connected": T.Const(True), "_stop_threads": T.Const(True),
                                    "events": T.ListOf(), "tracking_events_count": T.Const(0),
                                    "events_mask": T.Const(1), "write_mode_on": T.Sync("event"),
                                    "read_mode_on": T.Sync("event", flag=True)})

    @contract("bromelia.statemachine.%s.run" % cls.__name__, prop="C06", name=label)
    class _G:
        """the transport has signalled that the peer closed the connection and nothing is queued"""
        args = {"self": state_obj(cls, T.NoneS, mode=T.Const("CLIENT"), recv=T.Sync("queue"),
                                  send=T.Sync("queue"), transport_shape=tr, active=T.Const(True))}
        setup_spec = snap
        samples = 0          # two of the three are recorded findings; the reproduction script is their native run

        def ensures_peer_disconnect_closes(self):
            return self.next_state == CLOSED
    return _G


_peer_gone(SM.Open, OPEN, "peer-gone")
_peer_gone(SM.Closing, CLOSING, "peer-gone")
_peer_gone(SM.WaitInitiatorCEA, WAIT_I_CEA, "peer-gone")
