"""L5 -- DiameterMessage: serialisation and Message Length bookkeeping (C01 message level)."""
from pyvc.api import contract, T, Loop
from pyvc.spec import ghost_get, ghost_set, implies, be, unbe, zeros, use_lemma, lib_error, seq_snoc, same, is_instance_of
import bromelia.base as B
from contracts.common import (enc_hdr, enc_of, header_shape, msg_shape, AVP_ELEM, cat, slen, cat_len,
                              any_avp_shape, avp_plen, view_vendor, data_of, MAX24)


def enc_hdr_of(h):
    return enc_hdr(h._version, h._length, h._flags, h._command_code, h._application_id,
                   h._hop_by_hop, h._end_to_end)


def len_ok(m):
    """Message Length field == 20 + on-wire size of the listed AVPs"""
    return unbe(m._header._length) == 20 + slen(m._avps)


# ------------------------------------------------------------------ dump
def dump_inv(self, dump, done):
    return dump == enc_hdr_of(self._header) + cat(done)


@contract("bromelia.base.DiameterMessage.dump", prop="C01", name="_")
class _MDump:
    """header bytes followed by each listed AVP's RFC 6733 encoding, in list order"""
    args = {"self": msg_shape()}
    loops = {0: Loop(vars={"dump": T.Bytes()}, inv=dump_inv)}
    at_calls = True
    returns = T.Bytes()

    def ensures_header_then_avps_in_order(self, result):
        return result == enc_hdr_of(self._header) + cat(self._avps)

    def ensures_size(self, result):
        return use_lemma(cat_len, self._avps) and len(result) == 20 + slen(self._avps) \
            and len(result) % 4 == 0

    def ensures_length_field_is_total_size(self, result):
        # for a message whose length bookkeeping invariant holds, the Message Length on the wire
        # is the size of the serialised message
        return use_lemma(cat_len, self._avps) and \
            implies(len_ok(self), unbe(result[1:4]) == len(result))

    def control_header_last(self, result):
        return result == cat(self._avps) + enc_hdr_of(self._header)


# ------------------------------------------------------------------ refresh / length
def refresh_inv(self, real_length, done):
    return real_length == 20 + slen(done)


def fits24(self):
    return use_lemma(cat_len, self._avps) and 20 + slen(self._avps) < MAX24


@contract("bromelia.base.DiameterMessage.refresh", prop="C01", name="_", also=("C11", "C12"))
class _Refresh:
    """re-establishes the length invariant whatever the header said before"""
    args = {"self": msg_shape()}
    loops = {0: Loop(vars={"real_length": T.Int(), "padding": T.OneOf(T.NoneS, T.Int())}, inv=refresh_inv)}
    at_calls = True
    requires = fits24
    modifies = {"self._header._length": T.Bytes(3)}

    def ensures_len_ok(self):
        return len_ok(self)

    def ensures_frame(self, old):
        return self._avps == old.self._avps and self._header._flags == old.self._header._flags \
            and self._header._command_code == old.self._header._command_code \
            and self._header._hop_by_hop == old.self._header._hop_by_hop \
            and self._header._end_to_end == old.self._header._end_to_end \
            and self._header._application_id == old.self._header._application_id \
            and self._header._version == old.self._header._version

    def control_keeps_stale_length(self, old):
        return self._header._length == old.self._header._length


@contract("bromelia.base.DiameterMessage.length.fget", prop="C01", name="_")
class _MLength:
    args = {"self": msg_shape()}
    requires = fits24

    def ensures_refreshed(self, result):
        return len_ok(self) and result == self._header._length


# ------------------------------------------------------------------ append (list + length effect)
def key_loop_inv(index):
    return index >= 0


def _avps_after_append(avp, old):
    return seq_snoc(old.self._avps, avp)


def _abstract_message(ctx, ns):
    from pyvc.values import SObj, SSeq
    from pyvc.seqs import SymDict
    m = ns["self"]
    if not isinstance(m, SObj):
        return False
    avps = m.idict.known.get("_avps") if isinstance(m.idict, SymDict) else m.idict.get("_avps")
    return isinstance(m.idict, SymDict) or isinstance(avps, SSeq)


@contract("bromelia.base.DiameterMessage.append", prop="C01", name="length", also=("C11",))
class _Append:
    """append(avp): the AVP becomes the last list element; unless the message was decoded from the
    wire, the Message Length grows by exactly the AVP's on-wire size (length + padding)"""
    args = {"self": msg_shape(), "avp": any_avp_shape()}
    loops = {0: Loop(vars={"index": T.Int()}, inv=key_loop_inv)}
    at_calls = True
    accepts = _abstract_message        # concrete messages (known AVP list and names) execute the real body
    modifies = {"self._header._length": T.Bytes(3)}
    defines = {"self._avps": _avps_after_append}
    open_dicts = ("self",)
    raises = ()

    def requires(self, avp):
        return isinstance(avp, B.DiameterAVP) and avp_plen(view_vendor(avp), data_of(avp)) < MAX24 + 4 and \
            (self._loaded or unbe(self._header._length) + avp_plen(view_vendor(avp), data_of(avp)) < MAX24)

    def ensures_appended_last(self, avp, old):
        # the whole list: the old elements in their order, then avp (nothing else touched)
        return self._avps == seq_snoc(old.self._avps, avp)

    def ensures_frame(self, old):
        return self._loaded == old.self._loaded \
            and self._header._flags == old.self._header._flags \
            and self._header._command_code == old.self._header._command_code \
            and self._header._application_id == old.self._header._application_id \
            and self._header._hop_by_hop == old.self._header._hop_by_hop \
            and self._header._end_to_end == old.self._header._end_to_end \
            and self._header._version == old.self._header._version

    def ensures_length_grows_by_wire_size(self, avp, old):
        return implies(not old.self._loaded,
                       unbe(self._header._length) == unbe(old.self._header._length)
                       + avp_plen(view_vendor(avp), data_of(avp)))

    def ensures_preserves_len_ok(self, avp, old):
        return implies(not old.self._loaded and len_ok(old.self), len_ok(self))

    def ensures_loaded_keeps_wire_length(self, old):
        return implies(old.self._loaded, self._header._length == old.self._header._length)

    def control_forgets_padding(self, avp, old):
        return implies(not old.self._loaded,
                       unbe(self._header._length) == unbe(old.self._header._length)
                       + 8 + len(data_of(avp)))


# ------------------------------------------------------------------ extend
def extend_inv(self, done, avps):
    e = ghost_get("entry")
    return self._avps == e.avps + done and self._loaded == e.loaded and same(self._header, e.header) \
        and implies(not e.loaded, unbe(self._header._length) == e.length + slen(done)) \
        and implies(e.loaded, unbe(self._header._length) == e.length)


def extend_hint(avps, done, rest):
    # re-mention slen(avps) so that it unfolds along done ++ [x] ++ rest
    return use_lemma(cat_len, rest) and use_lemma(cat_len, done) and use_lemma(cat_len, avps)


def snapshot(self):
    return ghost_set("entry", Snapshot(list(self._avps), self._loaded, self._header,
                                       unbe(self._header._length)))


class Snapshot(object):
    def __init__(self, avps, loaded, header, length):
        self.avps = avps
        self.loaded = loaded
        self.header = header
        self.length = length


@contract("bromelia.base.DiameterMessage.extend", prop="C01", name="_", also=("C11",))
class _Extend:
    """extend(avps) appends every element in order; Message Length grows by their total wire size"""
    args = {"self": msg_shape(), "avps": T.Seq(AVP_ELEM)}
    loops = {0: Loop(heap={"self._avps": T.Seq(AVP_ELEM), "self._header._length": T.Bytes(3)},
                     open_dicts=("self",), inv=extend_inv, hint=extend_hint)}
    setup_spec = snapshot
    at_calls = True
    modifies = {"self._avps": T.Seq(AVP_ELEM), "self._header._length": T.Bytes(3)}
    open_dicts = ("self",)

    def requires(self, avps):
        return use_lemma(cat_len, avps) and unbe(self._header._length) + slen(avps) < MAX24

    def ensures_all_appended_in_order(self, avps, old):
        return self._avps == old.self._avps + avps

    def ensures_length_grows_by_total_wire_size(self, avps, old):
        return implies(not old.self._loaded,
                       unbe(self._header._length) == unbe(old.self._header._length) + slen(avps)) \
            and implies(old.self._loaded, self._header._length == old.self._header._length)

    def ensures_frame(self, old):
        return self._loaded == old.self._loaded and same(self._header, ghost_get("entry").header)


# ------------------------------------------------------------------ __init__
def init_hint2():
    return True


def init_inv(self, done, loaded):
    L0 = ghost_get("len0")
    return self._avps == done and self._loaded == loaded \
        and implies(not loaded, unbe(self._header._length) == L0 + slen(done)) \
        and implies(loaded, unbe(self._header._length) == L0)


def init_hint(avps, done, rest):
    return use_lemma(cat_len, rest) and use_lemma(cat_len, done) and use_lemma(cat_len, avps)


def init_loop_entry(self):
    # at the loop the header is installed and nothing has been appended yet
    return ghost_set("len0", unbe(self._header._length))


def init_snapshot(header):
    if header is None:
        return ghost_set("len0", 20)
    return ghost_set("len0", unbe(header._length))


@contract("bromelia.base.DiameterMessage.__init__", prop="C01", name="_", also=("C11",))
class _MInit:
    """DiameterMessage(header, avps, loaded): the AVP list is exactly `avps` in order; a message
    built from parts gets Message Length = header's length + total wire size; a message decoded
    from the wire (loaded=True) keeps the wire length; afterwards it is no longer 'loaded'"""
    args = {"self": T.Obj(B.DiameterMessage, idict={}),
            "header": T.OneOf(T.NoneS, header_shape()),
            "avps": T.OneOf(T.NoneS, T.Seq(AVP_ELEM)),
            "loaded": T.Bool()}
    loops = {0: Loop(heap={"self._avps": T.Seq(AVP_ELEM), "self._header._length": T.Bytes(3)},
                     vars={"idx": T.Int()}, open_dicts=("self",), inv=init_inv, hint=init_hint,
                     entry=init_loop_entry)}
    setup_spec = init_snapshot

    def requires(header, avps, loaded):
        return avps is None or (use_lemma(cat_len, avps) and (loaded or ghost_get("len0") + slen(avps) < MAX24))

    def ensures_list_is_the_argument(self, avps):
        if avps is None:
            return len(self._avps) == 0
        return self._avps == avps

    def ensures_header_kept(self, header):
        return header is None or same(self._header, header)

    def ensures_default_header(self, header):
        h = self._header
        return header is not None or (h._version == b"\x01" and h._flags == zeros(1) and h._command_code == zeros(3)
                                      and h._application_id == zeros(4) and h._hop_by_hop == zeros(4)
                                      and h._end_to_end == zeros(4))

    def ensures_length(self, header, avps, loaded):
        L0 = ghost_get("len0")
        if avps is None:
            return unbe(self._header._length) == L0
        return implies(not loaded, unbe(self._header._length) == L0 + slen(avps)) and \
            implies(loaded, unbe(self._header._length) == L0)

    def ensures_loaded_flag(self, avps, loaded):
        if avps is None:
            return self._loaded == loaded
        return self._loaded == False

    def exceptional(exc):
        return False

    def control_loaded_message_relengthed(self, avps, loaded):
        L0 = ghost_get("len0")
        return avps is None or implies(loaded, unbe(self._header._length) == L0 + slen(avps))
