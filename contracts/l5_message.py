"""L5 -- DiameterMessage: serialisation and Message Length bookkeeping (C01 message level)."""
from pyvc.api import contract, T, Loop
from pyvc.spec import implies, be, unbe, zeros, use_lemma, lib_error
import bromelia.base as B
from contracts.common import (enc_hdr, enc_of, header_shape, msg_shape, AVP_ELEM, cat, slen, cat_len,
                              any_avp_shape, avp_plen, view_vendor, data_of, MAX24)


def enc_hdr_of(h):
    return enc_hdr(h._version, h._length, h._flags, h._command_code, h._application_id,
                   h._hop_by_hop, h._end_to_end)


def len_ok(m):
    """Message Length field == 20 + on-wire size of the listed AVPs"""
    return unbe(m._header._length) == 20 + slen(m._avps)


# ------------------------------------------------------------------ dump
def dump_inv(self, dump, done):
    return dump == enc_hdr_of(self._header) + cat(done)


@contract("bromelia.base.DiameterMessage.dump", prop="C01", name="_")
class _MDump:
    """header bytes followed by each listed AVP's RFC 6733 encoding, in list order"""
    args = {"self": msg_shape()}
    loops = {0: Loop(vars={"dump": T.Bytes()}, inv=dump_inv)}
    at_calls = True
    returns = T.Bytes()

    def ensures_header_then_avps_in_order(self, result):
        return result == enc_hdr_of(self._header) + cat(self._avps)

    def ensures_size(self, result):
        return use_lemma(cat_len, self._avps) and len(result) == 20 + slen(self._avps) \
            and len(result) % 4 == 0

    def ensures_length_field_is_total_size(self, result):
        # for a message whose length bookkeeping invariant holds, the Message Length on the wire
        # is the size of the serialised message
        return use_lemma(cat_len, self._avps) and \
            implies(len_ok(self), unbe(result[1:4]) == len(result))

    def control_header_last(self, result):
        return result == cat(self._avps) + enc_hdr_of(self._header)


# ------------------------------------------------------------------ refresh / length
def refresh_inv(self, real_length, done):
    return real_length == 20 + slen(done)


def fits24(self):
    return use_lemma(cat_len, self._avps) and 20 + slen(self._avps) < MAX24


@contract("bromelia.base.DiameterMessage.refresh", prop="C01", name="_")
class _Refresh:
    """re-establishes the length invariant whatever the header said before"""
    args = {"self": msg_shape()}
    loops = {0: Loop(vars={"real_length": T.Int(), "padding": T.OneOf(T.NoneS, T.Int())}, inv=refresh_inv)}
    at_calls = True
    requires = fits24
    modifies = {"self._header._length": T.Bytes(3)}

    def ensures_len_ok(self):
        return len_ok(self)

    def ensures_frame(self, old):
        return self._avps == old.self._avps and self._header._flags == old.self._header._flags \
            and self._header._command_code == old.self._header._command_code \
            and self._header._hop_by_hop == old.self._header._hop_by_hop \
            and self._header._end_to_end == old.self._header._end_to_end \
            and self._header._application_id == old.self._header._application_id \
            and self._header._version == old.self._header._version

    def control_keeps_stale_length(self, old):
        return self._header._length == old.self._header._length


@contract("bromelia.base.DiameterMessage.length.fget", prop="C01", name="_")
class _MLength:
    args = {"self": msg_shape()}
    requires = fits24

    def ensures_refreshed(self, result):
        return len_ok(self) and result == self._header._length


# ------------------------------------------------------------------ append (list + length effect)
def key_loop_inv(index):
    return index >= 0


@contract("bromelia.base.DiameterMessage.append", prop="C01", name="length")
class _Append:
    """append(avp): the AVP becomes the last list element; unless the message was decoded from the
    wire, the Message Length grows by exactly the AVP's on-wire size (length + padding)"""
    args = {"self": msg_shape(), "avp": any_avp_shape()}
    loops = {0: Loop(vars={"index": T.Int()}, inv=key_loop_inv)}

    def requires(self, avp):
        return avp_plen(view_vendor(avp), data_of(avp)) < MAX24 and \
            unbe(self._header._length) + avp_plen(view_vendor(avp), data_of(avp)) < MAX24

    def ensures_appended_last(self, avp, old):
        return len(self._avps) == len(old.self._avps) + 1 and self._avps[len(self._avps) - 1] is avp

    def ensures_length_grows_by_wire_size(self, avp, old):
        return implies(not old.self._loaded,
                       unbe(self._header._length) == unbe(old.self._header._length)
                       + avp_plen(view_vendor(avp), data_of(avp)))

    def ensures_preserves_len_ok(self, avp, old):
        return implies(not old.self._loaded and len_ok(old.self), len_ok(self))

    def ensures_loaded_keeps_wire_length(self, old):
        return implies(old.self._loaded, self._header._length == old.self._header._length)

    def control_forgets_padding(self, avp, old):
        return implies(not old.self._loaded,
                       unbe(self._header._length) == unbe(old.self._header._length)
                       + 8 + len(data_of(avp)))
