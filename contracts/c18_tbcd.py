"""C18 -- TBCD digit encoding round-trips for every digit string.

Spec (3GPP TS 29.002 TBCD-STRING, as the property states it): the encoding t of a digit string s
has |t| = |s| + |s| mod 2, t[j ^ 1] == s[j] for every j < |s| (digits of each pair swapped), and
for odd |s| the filler 'f' sits at t[|s| - 1].  decode(encode(s)) == s.

Universal quantification over positions is expressed with ghost parameters (`_j`, `_k`, `_p`):
a clause proved for an arbitrary symbolic index holds for all indices; where a quantified fact is
*used*, the proof names the instances (instantiate_post / assume_pre).  No length bound anywhere.
"""
from pyvc.api import contract, T, Loop
from pyvc.spec import implies, is_digits, instantiate_post, assume_pre, fromhex
from pyvc.values import SStr, SInt
import bromelia.utils as U
from bromelia.avps.etsi_3gpp.ts_129_329 import MsisdnAVP
from bromelia.avps.etsi_3gpp.ts_129_272 import StnSrAVP
from bromelia.constants import VENDOR_ID_3GPP


# ------------------------------------------------------------------ encode_to_tbcd
def enc_inv(input, offset, output, _j):
    return (offset % 2 == 0 and 0 <= offset and offset <= len(input) and len(output) == offset
            and implies(0 <= _j and _j < offset,
                        output[(_j ^ 1):(_j ^ 1) + 1] == input[_j:_j + 1]))


def enc_variant(input, offset):
    return len(input) - offset


_ENC_LOOPS = {0: Loop(vars={"offset": T.Int(), "output": T.Str(), "bits": T.Str()},
                      inv=enc_inv, variant=enc_variant)}


def _is_str(ctx, ns):
    return isinstance(ns["input"], (str, SStr))


def _is_int(ctx, ns):
    return isinstance(ns["input"], (int, SInt)) and not isinstance(ns["input"], bool)


@contract("bromelia.utils.encode_to_tbcd", prop="C18", name="str")
class _EncodeStr:
    args = {"input": T.Str(), "_j": T.Int()}
    loops = _ENC_LOOPS
    at_calls = True
    accepts = _is_str
    pure = "str"

    def requires(input):
        return is_digits(input)

    def ensures_returns_str(result):
        return isinstance(result, str)

    def ensures_length(input, result):
        return len(result) == len(input) + len(input) % 2

    def ensures_pairs_swapped(input, result, _j):
        return implies(0 <= _j and _j < len(input),
                       result[(_j ^ 1):(_j ^ 1) + 1] == input[_j:_j + 1])

    def ensures_filler_only_when_odd(input, result):
        n = len(input)
        return implies(n % 2 == 1, result[n - 1:n] == "f")

    def control_no_swap(input, result, _j):
        return implies(0 <= _j and _j < len(input), result[_j:_j + 1] == input[_j:_j + 1])

    def control_filler_last(input, result):
        n = len(input)
        return implies(n % 2 == 1, result[n:n + 1] == "f")


@contract("bromelia.utils.encode_to_tbcd", prop="C18", name="int")
class _EncodeInt:
    """a non-negative number is encoded as its decimal rendering"""
    args = {"input": T.Int(lo=0), "_j": T.Int()}
    loops = _ENC_LOOPS
    at_calls = True
    accepts = _is_int
    pure = "str"

    def ensures_returns_str(result):
        return isinstance(result, str)

    def ensures_length(input, result):
        return len(result) == len(str(input)) + len(str(input)) % 2

    def ensures_pairs_swapped(input, result, _j):
        s = str(input)
        return implies(0 <= _j and _j < len(s), result[(_j ^ 1):(_j ^ 1) + 1] == s[_j:_j + 1])

    def ensures_filler_only_when_odd(input, result):
        n = len(str(input))
        return implies(n % 2 == 1, result[n - 1:n] == "f")


# ------------------------------------------------------------------ decode_from_tbcd
def dec_inv(input, offset, output, _k):
    return (offset % 2 == 0 and 0 <= offset and offset <= len(input) and len(output) == offset
            and implies(has_filler(input), offset <= len(input) - 2)
            and implies(0 <= _k and _k < offset,
                        output[_k:_k + 1] == input[(_k ^ 1):(_k ^ 1) + 1]))


def has_filler(t):
    n = len(t)
    return n >= 2 and t[n - 2:n - 1] == "f"


def dec_variant(input, offset):
    return len(input) - offset


def dec_hint(offset):
    return assume_pre(_p=offset) and assume_pre(_p=offset + 1)


@contract("bromelia.utils.decode_from_tbcd", prop="C18", name="_")
class _Decode:
    """input is a TBCD string: even length, 'f' at most as the filler (second-to-last position)"""
    args = {"input": T.Str(), "_p": T.Int(), "_k": T.Int()}
    loops = {0: Loop(vars={"offset": T.Int(), "output": T.Str(), "bits": T.Str()},
                     inv=dec_inv, variant=dec_variant, hint=dec_hint)}
    at_calls = True
    pure = "str"

    def requires(input, _p):
        n = len(input)
        return n % 2 == 0 and implies(0 <= _p and _p < n and input[_p:_p + 1] == "f", _p == n - 2)

    def ensures_returns_str(result):
        return isinstance(result, str)

    def ensures_length(input, result):
        return implies(has_filler(input), len(result) == len(input) - 1) and \
            implies(not has_filler(input), len(result) == len(input))

    def ensures_pairs_swapped(input, result, _k):
        return implies(0 <= _k and _k < len(result),
                       result[_k:_k + 1] == input[(_k ^ 1):(_k ^ 1) + 1])

    def control_keeps_filler(input, result):
        return len(result) == len(input)


# ------------------------------------------------------------------ round trip (lemma over the two contracts)
def rt_pre_hint(_p, s):
    # decode's precondition at an arbitrary position p follows from encode's post at j = p ^ 1
    return instantiate_post(U.encode_to_tbcd, _j=(_p ^ 1))


def roundtrip(s, _k):
    t = U.encode_to_tbcd(s)
    r = U.decode_from_tbcd(t)
    instantiate_post(U.decode_from_tbcd, _k=_k)
    instantiate_post(U.encode_to_tbcd, _j=_k)
    instantiate_post(U.encode_to_tbcd, _j=len(s) - 1)
    return r


@contract("bromelia.utils.decode_from_tbcd", prop="C18", name="roundtrip")
class _RoundTrip:
    """decode(encode(s)) == s, stated pointwise (equal length, equal character at every index)"""
    args = {"s": T.Str(), "_k": T.Int()}
    call = roundtrip
    pre_hints = {"decode_from_tbcd": rt_pre_hint}

    def requires(s):
        return is_digits(s)

    def ensures_same_length(s, result):
        return len(result) == len(s)

    def ensures_same_chars(s, result, _k):
        return implies(0 <= _k and _k < len(s), result[_k:_k + 1] == s[_k:_k + 1])


# ------------------------------------------------------------------ MSISDN / STN-SR carry exactly that encoding
def _avp_self(cls):
    return T.Obj(cls, slots={"_flags": T.Bytes(1)},
                 idict={"code": T.Const(cls.code), "vendor_id": T.Const(VENDOR_ID_3GPP)})


def _encode_contract(cls, target):
    @contract(target, prop="C18", name="number")
    class _C:
        args = {"self": _avp_self(cls), "data": T.Int(lo=0)}

        def ensures_tbcd_of_the_number(data, result):
            return result == fromhex(U.encode_to_tbcd(data))

        def control_not_decoded(data, result):
            return result == fromhex(str(data))

    @contract(target, prop="C18", name="numeric-str")
    class _D:
        """a non-empty all-digit string denotes the number int(data)"""
        args = {"self": _avp_self(cls), "data": T.Str(minlen=1)}

        def requires(data):
            return is_digits(data)

        def ensures_tbcd_of_the_number(data, result):
            return result == fromhex(U.encode_to_tbcd(int(data)))

    @contract(target, prop="C18", name="bytes")
    class _E:
        args = {"self": _avp_self(cls), "data": T.Bytes()}

        def ensures_carried_unchanged(data, result):
            return result == data
    return _C


_encode_contract(MsisdnAVP, "bromelia.avps.etsi_3gpp.ts_129_329.MsisdnAVP.encode")
_encode_contract(StnSrAVP, "bromelia.avps.etsi_3gpp.ts_129_272.StnSrAVP.encode")


# ------------------------------------------------------------------ bounded companion (never counted as proved)
import itertools as _it                    # noqa: E402
import os as _os                           # noqa: E402
from pyvc.api import table                 # noqa: E402


def _digit_strings(maxlen):
    for n in range(0, maxlen + 1):
        for t in _it.product("0123456789", repeat=n):
            yield "".join(t)


@table("small-digit-strings", prop="C18")
def small_digit_strings():
    """the contract clauses above evaluated natively on the real functions for EVERY digit string up to
    a length bound (plus the numbers they denote), so that a rewrite the proof cannot follow is still
    checked on small inputs with the failing input in hand"""
    from pyvc.conform import conform
    n = 5 if _os.environ.get("VERIF_TIER") == "thorough" else 4
    idx = lambda ns: {"_j": range(-1, n + 3), "_k": range(-1, n + 3), "_p": range(-1, n + 3)}   # noqa: E731
    out = []
    c1 = conform("C18/utils.encode_to_tbcd[str]", ({"input": s} for s in _digit_strings(n)), idx)
    c2 = conform("C18/utils.encode_to_tbcd[int]", ({"input": int(s)} for s in _digit_strings(n) if s), idx)
    c3 = conform("C18/utils.decode_from_tbcd", ({"input": U.encode_to_tbcd(s)} for s in _digit_strings(n)), idx)
    c4 = conform("C18/utils.decode_from_tbcd[roundtrip]", ({"s": s} for s in _digit_strings(n)), idx,
                 call=lambda target, ns: roundtrip(ns["s"], 0))
    for nm, (chk, skip, fails) in (("encode-str", c1), ("encode-int", c2), ("decode", c3), ("roundtrip", c4)):
        out.append((nm, not fails and chk > 0, {"checked": chk, "outside_precondition": skip, "failing": fails}))
    # MSISDN / STN-SR AVPs built from a number (int or decimal text) carry exactly the reference TBCD encoding:
    # nibble-swapped pairs, an 'f' filler only for odd lengths -- written here from the 3GPP definition
    from bromelia.avps.etsi_3gpp.ts_129_329 import MsisdnAVP
    from bromelia.avps.etsi_3gpp.ts_129_272 import StnSrAVP

    def ref_tbcd(digits):
        d = digits + ("f" if len(digits) % 2 else "")
        return bytes.fromhex("".join(d[i + 1] + d[i] for i in range(0, len(d), 2)))
    bad, chk = [], 0
    for s_ in _digit_strings(n):
        if not s_ or s_[0] == "0":
            continue                      # a NUMBER: no leading zeros (the int form cannot carry them)
        for cls in (MsisdnAVP, StnSrAVP):
            for arg in (int(s_), s_):
                chk += 1
                try:
                    a = cls(arg)
                    got = a.data
                    want = ref_tbcd(s_)
                    wire = a.dump()
                    ok = got == want and wire[8 + (4 if a.vendor_id else 0):][:len(want)] == want \
                        and a.get_length() == 8 + (4 if a.vendor_id else 0) + len(want)
                except BaseException as e:  # noqa
                    ok, got = False, "raised %s" % type(e).__name__
                if not ok and len(bad) < 6:
                    bad.append({"class": cls.__name__, "number": repr(arg),
                                "data": got.hex() if isinstance(got, bytes) else got, "want": ref_tbcd(s_).hex()})
    out.append(("msisdn-and-stn-sr-avps-carry-the-tbcd-encoding", not bad and chk > 0, {"checked": chk, "failing": bad}))
    return out


small_digit_strings.bounded = "every digit string of length <= 4 (quick) / 5 (thorough), native evaluation of the contract clauses"
