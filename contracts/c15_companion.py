"""Bounded companions for C15 and C16 (never counted as proved): the real constructors run natively with an
adversarial random source / a frozen clock, the issued values compared pairwise."""
from pyvc.api import table


@table("adversarial-random-source", prop="C15")
def adversarial_random_source():
    """400 requests created while os.urandom hands out every value FOUR times in a row (and starts inside the
    values already issued): all Hop-by-Hop ids pairwise distinct, all End-to-End ids pairwise distinct, every one
    recorded in the process-wide registries; requests built from an explicit header and answers consume nothing"""
    import os
    import bromelia.base as B
    real = os.urandom
    state = {"n": 0}

    def fake(k):
        state["n"] += 1
        return ((state["n"] // 4) % 1000).to_bytes(k, "big")
    hbh0, e2e0 = list(B.DiameterRequest.hop_by_hop_identifiers), list(B.DiameterRequest.end_to_end_identifiers)
    os.urandom = fake
    try:
        reqs = [B.DiameterRequest() for _ in range(400)]
        h = [r.header.hop_by_hop for r in reqs]
        e = [r.header.end_to_end for r in reqs]
        before = (len(B.DiameterRequest.hop_by_hop_identifiers), len(B.DiameterRequest.end_to_end_identifiers))
        hdr = B.DiameterHeader(hop_by_hop=h[0], end_to_end=e[0])
        B.DiameterRequest(header=hdr)
        B.DiameterAnswer(header=hdr)
        B.DiameterAnswer()
        after = (len(B.DiameterRequest.hop_by_hop_identifiers), len(B.DiameterRequest.end_to_end_identifiers))
    finally:
        os.urandom = real
    ok_distinct = len(set(h)) == len(h) and len(set(e)) == len(e) and all(len(x) == 4 for x in h + e)
    ok_fresh = not (set(h) & set(hbh0)) and not (set(e) & set(e2e0))
    ok_recorded = set(h) <= set(B.DiameterRequest.hop_by_hop_identifiers) and \
        set(e) <= set(B.DiameterRequest.end_to_end_identifiers)
    return [("identifiers-pairwise-distinct", ok_distinct and ok_fresh,
             {"requests": len(reqs), "distinct_hbh": len(set(h)), "distinct_e2e": len(set(e))}),
            ("identifiers-recorded", ok_recorded, {}),
            ("explicit-header-and-answers-consume-nothing", before == after, {"before": before, "after": after})]


adversarial_random_source.bounded = "400 requests against a random source repeating each value four times; native"


@table("frozen-clock", prop="C16")
def frozen_clock():
    """300 Session-Ids generated for one identity with the clock frozen, 50 more after the clock moved on by a
    second, then 60 more mixing fresh ids with regenerations from OLDER ids: pairwise distinct, each `identity;<high>;<low>;bromelia` with decimal high/low (the identity switch within
    one clock second is the recorded finding KF-C16-reset and is not exercised here)"""
    import datetime
    import re
    import bromelia._internal_utils as IU
    real = IU.datetime.datetime

    class Frozen(datetime.datetime):
        now_value = datetime.datetime(2026, 1, 2, 3, 4, 5)

        @classmethod
        def utcnow(cls):
            return cls.now_value
    IU.datetime.datetime = Frozen
    try:
        IU.SessionHandler.reset()
        ids, prev = [], None
        for i in range(300):
            prev = IU.SessionHandler.get_session_id("host.example", prev)
            ids.append(prev)
        Frozen.now_value = Frozen.now_value + datetime.timedelta(seconds=1)
        for i in range(50):
            prev = IU.SessionHandler.get_session_id("host.example", prev)
            ids.append(prev)
        # fresh ids (no previous) interleaved with regenerations whose `previous` is an OLD id of the same
        # identity (the bulk origin re-assignment of a message created earlier): still never a repeat
        for i in range(20):
            ids.append(IU.SessionHandler.get_session_id("host.example", None))
            ids.append(IU.SessionHandler.get_session_id("host.example", ids[i * 3]))
            ids.append(IU.SessionHandler.get_session_id("host.example", ids[-3]))
    finally:
        IU.datetime.datetime = real
        IU.SessionHandler.reset()
    fmt = all(re.fullmatch(r"host\.example;\d+;\d+;bromelia", s) for s in ids)
    return [("session-ids-pairwise-distinct", len(set(ids)) == len(ids), {"generated": len(ids), "distinct": len(set(ids))}),
            ("session-ids-well-formed", fmt, {"first": ids[0], "last": ids[-1]})]


frozen_clock.bounded = "410 generations (60 of them fresh / regenerated from older ids) for one identity with a frozen / stepped clock; native"


@table("bulk-origin-reassignment", prop="C16")
def bulk_origin_reassignment():
    """update_avps({"origin_host": identity}) on real messages (clock stepped by a second between identity switches,
    and before every update, so the recorded finding KF-C16-reset is not exercised): the message's Session-Id is regenerated, starts with the
    NEW identity, has the RFC 6733 form, differs from every Session-Id generated before, and is what the message
    serialises; a Session-Id given explicitly in the same update is carried unchanged"""
    import datetime
    import re
    import bromelia._internal_utils as IU
    import bromelia.base as B
    from bromelia.avps import SessionIdAVP, OriginHostAVP, OriginRealmAVP
    real = IU.datetime.datetime

    class Stepped(datetime.datetime):
        now_value = datetime.datetime(2026, 3, 4, 5, 6, 7)

        @classmethod
        def utcnow(cls):
            return cls.now_value
    IU.datetime.datetime = Stepped
    bad, seen, n = [], set(), 0
    try:
        IU.SessionHandler.reset()
        def fresh_messages():
            out = []
            for i in range(6):
                m = B.DiameterMessage(B.DiameterHeader(), [SessionIdAVP("a.example"), OriginHostAVP("a.example"),
                                                           OriginRealmAVP("example")])
                seen.add(m.session_id_avp.data)
                out.append(m)
            return out
        # (a message is updated ONCE here: a second update_avps on the same message fails on the pinned tree,
        # recorded finding KF-C11-update-avp)
        for rnd, ident in enumerate(("a.example", "b.example", "b.example", "c.d.example")):
            Stepped.now_value = Stepped.now_value + datetime.timedelta(seconds=1)
            msgs = fresh_messages()
            for m in msgs[::-1] if rnd % 2 else msgs:
                n += 1
                # one identity switch per clock second at most (two within one second: KF-C16-reset)
                Stepped.now_value = Stepped.now_value + datetime.timedelta(seconds=1)
                m.update_avps({"origin_host": ident})
                sid = m.session_id_avp.data
                text = sid.decode("utf-8", "replace")
                if sid in seen:
                    bad.append("round %d: Session-Id %r issued before" % (rnd, text))
                elif not re.fullmatch(re.escape(ident) + r";\d+;\d+(;.*)?", text):
                    bad.append("round %d: %r is not `%s;high;low[;optional]`" % (rnd, text, ident))
                elif sid not in m.dump() or m.header.get_length() != len(m.dump()):
                    bad.append("round %d: the serialised message does not carry %r / length mismatch" % (rnd, text))
                seen.add(sid)
        msgs = fresh_messages()
        m = msgs[0]
        m.update_avps({"origin_host": "z.example", "session_id": b"given;1;2"})
        n += 1
        if m.session_id_avp.data != b"given;1;2":
            bad.append("an explicitly supplied Session-Id was not carried unchanged: %r" % m.session_id_avp.data)
    except BaseException as e:  # noqa
        bad.append("raised %s: %s" % (type(e).__name__, e))
    finally:
        IU.datetime.datetime = real
        IU.SessionHandler.reset()
    return [("regenerated-session-ids-are-new-and-carry-the-new-identity", not bad, {"checked": n, "failing": bad[:5]})]


bulk_origin_reassignment.bounded = "6 messages x 4 re-assignments (same and new identities, clock stepped between rounds); native"
