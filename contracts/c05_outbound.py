"""C05 -- submitted messages are written to the socket exactly once, whole and in order.

The statement quantifies over thread interleavings; contracts decide its SEQUENTIAL skeleton, function by
function, with the socket and the selector replaced by Python models whose choices (how many bytes a send
accepts, which events a select reports) are universally quantified:

  put       DiameterAssociation.put_message_into_send_queue: the message object joins the queue, once, for
            every kind of message (C07 contract, extended to plain DiameterMessage requests and answers);
  flush     send_message_from_queue: one stream == encodings of everything queued, in order (bounded, C07);
  _write    bytes accepted by the kernel ++ bytes still buffered is invariant: nothing lost, duplicated
            or reordered by a partial write, a zero-length write or a would-block;
  write     the same conservation law across data_stream -> _send_buffer -> socket, and the selector goes
            back to read-only exactly when the buffer has drained;
  _run      the event loop of the transport thread for up to 2 rounds of arbitrary readiness and arbitrary
            partial writes after ONE hand-over of a stream (bounded): wire ++ buffers ++ (stream not yet
            picked up) == the stream handed over.
"""
from pyvc.api import contract, T
from pyvc.spec import implies, ghost_get, ghost_set
import bromelia.transport as TR
from contracts.stubs import FakeSock, FakeSelector


def sock():
    return T.Obj(FakeSock, idict={"wire": T.Bytes(maxlen=64), "inbound": T.Const(b"")})


def selector(mask=None, data=None, undelivered=None, rounds=None):
    return T.Obj(FakeSelector, idict={"mask": mask or T.OneOf(T.Const(1), T.Const(3)),
                                      "data": data or T.NoneS, "undelivered": undelivered or T.Const(False),
                                      "rounds": rounds or T.Const(0), "conn": T.NoneS})


def conn(send_buffer=None, data_stream=None, queued=None, sel=None):
    return T.Obj(TR.TcpClient, idict={
        "_send_buffer": send_buffer if send_buffer is not None else T.Bytes(maxlen=64),
        "data_stream": data_stream if data_stream is not None else T.Bytes(maxlen=64),
        "send_data_stream_queued": queued if queued is not None else T.Bool(),
        "_recv_buffer": T.Const(b""), "_recv_data_stream": T.Const(b""),
        "_recv_data_available": T.Sync("event"), "write_mode_on": T.Sync("event"),
        "read_mode_on": T.Sync("event", flag=True), "lock": T.Sync("lock"),
        "sock": sock(), "sock_id": T.Const("0"), "selector": sel or selector(),
        "is_connected": T.Const(True), "_stop_threads": T.Const(False), "error_has_raised": T.Const(False),
        "events": T.ListOf(), "tracking_events_count": T.Const(0), "events_mask": T.Const(3)})


def total(self):
    return self.sock.wire + self._send_buffer + self.data_stream


def snap_total(self):
    return ghost_set("total0", total(self)) and ghost_set("wire0", self.sock.wire) \
        and ghost_set("buf0", self._send_buffer)


@contract("bromelia.transport.TcpConnection._write", prop="C05", name="_")
class _Write:
    args = {"self": conn()}
    snapshot_spec = snap_total

    def ensures_nothing_lost_duplicated_or_reordered(self):
        # what the kernel took is a prefix of what was buffered, the rest is still buffered
        return self.sock.wire + self._send_buffer == ghost_get("wire0") + ghost_get("buf0") \
            and len(self.sock.wire) >= len(ghost_get("wire0")) and self.data_stream == self.data_stream

    def ensures_would_block_keeps_the_buffer(self):
        return implies(self._stop_threads == True, self._send_buffer == ghost_get("buf0")
                       and self.sock.wire == ghost_get("wire0"))

    def exceptional(exc):
        return False

    def control_everything_sent(self):
        return len(self._send_buffer) == 0


@contract("bromelia.transport.TcpConnection.write", prop="C05", name="_")
class _WriteStep:
    args = {"self": conn()}
    snapshot_spec = snap_total

    def requires(self):
        # representation invariant of the write path: a stream is marked as queued only while it sits in
        # _send_buffer
        return implies(not self.send_data_stream_queued, len(self._send_buffer) == 0)

    def ensures_conservation(self):
        return total(self) == ghost_get("total0")

    def ensures_read_only_again_exactly_when_drained(self, old):
        had_work = old.self.send_data_stream_queued == True or len(old.self.data_stream) > 0
        drained = len(self._send_buffer) == 0
        return implies(drained, self.send_data_stream_queued == False) \
            and implies(had_work and drained, self.selector.mask == 1 and self.selector.data is None) \
            and implies(not drained, self.send_data_stream_queued == True and self.selector.mask == old.self.selector.mask)

    def ensures_invariant_kept(self):
        return implies(not self.send_data_stream_queued, len(self._send_buffer) == 0)

    def exceptional(exc):
        return False


# ------------------------------------------------------------------ the event loop after one hand-over (bounded)
def link_selector(self):
    self.selector.conn = self
    return ghost_set("handed", self.selector.data)


def _run_contract(rounds):
    sel = selector(mask=T.Const(3), data=T.Bytes(minlen=1, maxlen=24), undelivered=T.Const(True),
                   rounds=T.Const(rounds))
    shape = T.Obj(TR.TcpClient, idict={
        "_send_buffer": T.Const(b""), "data_stream": T.Const(b""), "send_data_stream_queued": T.Const(False),
        "_recv_buffer": T.Const(b""), "_recv_data_stream": T.Const(b""),
        "_recv_data_available": T.Sync("event"), "write_mode_on": T.Sync("event", flag=True),
        "read_mode_on": T.Sync("event", flag=True), "lock": T.Sync("lock"),
        "sock": T.Obj(FakeSock, idict={"wire": T.Const(b""), "inbound": T.Bytes(maxlen=8)}),
        "sock_id": T.Const("0"), "selector": sel,
        "is_connected": T.Const(True), "_stop_threads": T.Const(False), "error_has_raised": T.Const(False),
        "events": T.ListOf(), "tracking_events_count": T.Const(0), "events_mask": T.Const(3)})

    @contract("bromelia.transport.TcpConnection._run", prop="C05", name="rounds-%d" % rounds)
    class _Run:
        """one stream has been handed to the selector (mode rw); the loop then runs `rounds` rounds with
        ANY readiness reported by select(), ANY partial / zero / would-block outcome of each send and any
        inbound traffic: the bytes on the wire, in the two buffers and (if not picked up yet) still attached
        to the selector are together exactly the stream -- once, whole, in order"""
        args = {"self": shape}
        setup_spec = link_selector
        bounded = "%d round(s) of the transport event loop after one hand-over; stream of 1..24 bytes" % rounds
        max_paths = 4000

        def ensures_exactly_once_whole_in_order(self):
            s = ghost_get("handed")
            rest = s if self.selector.undelivered else b""
            return self.sock.wire + self._send_buffer + self.data_stream + rest == s

        def exceptional(exc):
            return False
    return _Run


for _r in (1, 2):
    _run_contract(_r)


# ------------------------------------------------------------------ the mode predicates the hand-over relies on
#  send_message_from_queue asks is_write_mode() to learn whether the transport still holds a stream that was handed
#  over (hand-over always registers READ|WRITE): the predicates are BIT tests on the registered mask.
def _mode_contract(fname, bit):
    @contract("bromelia.transport.TcpConnection." + fname, prop="C05", name="_", also=("C07",))
    class _M:
        args = {"self": T.Obj(TR.TcpClient, idict={"events_mask": T.OneOf(T.Const(0), T.Const(1), T.Const(2), T.Const(3))})}

        def ensures_bit_test(self, result):
            return result == (self.events_mask & bit != 0)

        def exceptional(exc):
            return False
    return _M


_mode_contract("is_write_mode", 2)
_mode_contract("is_read_mode", 1)
