"""C12 -- answers leaving a route carry the request's identity and a correct error flag.

decorate_answer(answer, request) is proved for every header content, every Session-Id of any
length, every 32-bit Result-Code, with / without Session-Id, Result-Code and Experimental-Result.
BOUNDED in one dimension only: the answer holds its named AVPs plus at most one further AVP (the
AVP objects are mutated in place by the function, which the unbounded sequence model treats as
immutable snapshots); every AVP field is symbolic.
"""
from pyvc.api import contract, T
from pyvc.spec import implies, unbe, be, use_lemma, is_instance_of, lib_error
import bromelia.base as B
import bromelia.bromelia as BB
from bromelia.avps.ietf.rfc6733 import SessionIdAVP, ResultCodeAVP, ExperimentalResultAVP
from contracts.common import header_shape, generic_avp_shape, slen, cat, cat_len, avp_plen, view_vendor, data_of, MAX24


def _sid():
    return T.Obj(SessionIdAVP, slots={"_flags": T.Bytes(1), "_data": T.Bytes(minlen=1, maxlen=4096), "_vendor_id": T.NoneS,
                                      "_padding": T.NoneS},
                 idict={"code": T.Const(SessionIdAVP.code), "vendor_id": T.NoneS})


def _rc():
    return T.Obj(ResultCodeAVP, slots={"_flags": T.Bytes(1), "_data": T.Bytes(4), "_vendor_id": T.NoneS,
                                       "_padding": T.NoneS},
                 idict={"code": T.Const(ResultCodeAVP.code), "vendor_id": T.NoneS})


def _er():
    return T.Obj(ExperimentalResultAVP, slots={"_flags": T.Bytes(1), "_data": T.Bytes(minlen=1, maxlen=64), "_vendor_id": T.NoneS,
                                               "_padding": T.NoneS},
                 idict={"code": T.Const(ExperimentalResultAVP.code), "vendor_id": T.NoneS, "_avps": T.ListOf()})


def _answer(sid, rc, er, extra, header=None):
    items, alias = [], {}
    if sid:
        alias["session_id_avp"] = ("_avps", len(items)); items.append(_sid())
    if extra:
        items.append(generic_avp_shape(data=T.Bytes(maxlen=64)))
    if rc:
        alias["result_code_avp"] = ("_avps", len(items)); items.append(_rc())
    if er:
        alias["experimental_result_avp"] = ("_avps", len(items)); items.append(_er())
    return T.Obj(B.DiameterAnswer,
                 idict={"_header": header or header_shape(), "_avps": T.ListOf(*items), "_loaded": T.Const(False)},
                 alias=alias)


def _request(sid):
    items, alias = [], {}
    if sid:
        alias["session_id_avp"] = ("_avps", 0); items.append(_sid())
    return T.Obj(B.DiameterRequest,
                 idict={"_header": header_shape(), "_avps": T.ListOf(*items), "_loaded": T.Const(False)},
                 alias=alias)


def flags_of(h):
    return unbe(h._flags)


def has_code(avps, code):
    found = False
    for a in avps:
        if a.code == code:
            found = True
    return found


def _contract(sid_a, rc, er, extra, sid_r):
    nm = "%s%s%s%s-req%s" % ("S" if sid_a else "s", "R" if rc else "r", "E" if er else "e",
                             "X" if extra else "x", "S" if sid_r else "s")

    @contract("bromelia.bromelia.decorate_answer", prop="C12", name=nm)
    class _C:
        args = {"answer": _answer(sid_a, rc, er, extra), "request": _request(sid_r)}
        bounded = "answers holding their named AVPs plus at most one further AVP (all field contents symbolic)"

        def requires(answer, request):
            # what a route handler hands over: an answer (R and E clear) whose Message Length is consistent
            return flags_of(answer._header) & 0x80 == 0 and flags_of(answer._header) & 0x20 == 0 \
                and unbe(answer._header._length) == 20 + slen(answer._avps) \
                and ((not extra) or answer._avps[1].code != ResultCodeAVP.code)   # at most one Result-Code AVP

        def ensures_identity_of_the_request(answer, request, result):
            h, q = result._header, request._header
            return result is answer and h._application_id == q._application_id \
                and h._hop_by_hop == q._hop_by_hop and h._end_to_end == q._end_to_end

        def ensures_session_id_of_the_request(answer, request):
            return (not sid_r) or answer.session_id_avp._data == request.session_id_avp._data

        def ensures_error_flag_iff_3xxx_4xxx_5xxx(answer, old):
            if not rc:
                return flags_of(answer._header) & 0x20 == 0
            n = unbe(old.answer.result_code_avp._data)
            return implies(n % 1000 != 0,
                           (flags_of(answer._header) & 0x20 != 0) == (n // 1000 == 3 or n // 1000 == 4 or n // 1000 == 5))

        def ensures_no_result_code_beside_experimental_result(answer):
            return (not er) or not has_code(answer._avps, ResultCodeAVP.code)

        def ensures_message_length_matches_content(answer):
            return unbe(answer._header._length) == 20 + slen(answer._avps)

        def ensures_other_flags_untouched(answer, old):
            return flags_of(answer._header) & 0xdf == flags_of(old.answer._header) & 0xdf

        def exceptional(exc):
            return False

        if rc and not er:
            def control_flag_never_set(answer):
                return flags_of(answer._header) & 0x20 == 0
    return _C


for _rc_ in (False, True):
    for _er_ in (False, True):
        for _sr in (False, True):
            _contract(True, _rc_, _er_, False, _sr)
_contract(True, True, False, True, True)      # one further (generic, symbolic) AVP between the named ones
_contract(True, True, True, True, False)
# an answer without Session-Id for a request without one
_contract(False, True, False, False, False)


# =========================================================================================
#  UNBOUNDED: the answer holds ANY list of AVPs (symbolic length); the AVPs the function touches
#  through the name map -- Session-Id (assigned to in place), Result-Code (popped) -- sit at arbitrary
#  positions:   _avps == seg0 ++ [first] ++ seg1 ++ [second] ++ seg2    for arbitrary segments.
#  The Session-Id AVP is a MUTABLE member of that symbolic list (pyvc.values.SSeq.term): the proof
#  follows the in-place assignment into every later fold over the list (refresh, Message Length).
# =========================================================================================
import z3                                                             # noqa: E402
from pyvc.values import SSeq, RSEQ                                    # noqa: E402
from pyvc.spec import ghost_get, ghost_set, proved, same             # noqa: E402
from contracts.common import AVP_ELEM, cat_len, enc_of               # noqa: E402


def _answer_any(er):
    absent = () if er else ("experimental_result_avp",)
    idict = {"_header": header_shape(), "_avps": T.Seq(AVP_ELEM), "_loaded": T.Const(False)}
    if er:
        idict["experimental_result_avp"] = _er()
    # names nobody generates (has_avp also looks for '<key>_avp'): part of the shape, not of the unknown rest
    never = ("session_id_avp_avp", "result_code_avp_avp", "experimental_result_avp_avp")
    return T.Obj(B.DiameterAnswer, idict=idict, open_dict=True,
                 excluded=("_header", "_avps", "_loaded", "session_id_avp", "result_code_avp") + absent + never)


def _placer(sid_first, with_rc):
    def place(ctx, ns):
        m = ns["answer"]
        seq = m.idict.known["_avps"]
        named = [("session_id_avp", ns["sid"], True)]
        if with_rc:
            named.append(("result_code_avp", ns["rc"], False))
            if not sid_first:
                named.reverse()
        segs = [SSeq(z3.Const("c12.seg%d" % i, RSEQ), AVP_ELEM, ("var",)) for i in range(len(named) + 1)]
        cur = segs[0]
        refs = []
        for i, (key, obj, mutable) in enumerate(named):
            r = AVP_ELEM.adopt(ctx, obj)
            obj.mutable_elem = mutable
            refs.append(r)
            unit = SSeq(z3.Unit(r), AVP_ELEM, ("snoc", SSeq(z3.Empty(RSEQ), AVP_ELEM, ("empty",)), obj))
            cur = SSeq(z3.Concat(cur.term, z3.Unit(r)), AVP_ELEM, ("concat", cur, unit))
            cur = SSeq(z3.Concat(cur.term, segs[i + 1].term), AVP_ELEM, ("concat", cur, segs[i + 1]))
            m.idict.set(ctx, key, obj)
        ctx.assume_raw(seq.term == cur.term)
        seq.struct = cur.struct
        # A-DISTINCT: a named AVP object is listed once (the other members are other objects)
        for r in refs:
            for sg in segs:
                ctx.assume_raw(z3.Not(z3.Contains(sg.term, z3.Unit(r))))
        if len(refs) == 2:
            ctx.assume_raw(refs[0] != refs[1])
        for i, sg in enumerate(segs):
            ctx.ghost["seg%d" % i] = sg
        ctx.ghost["nsegs"] = len(segs)
    return place


def segs_len():
    total = 0
    for i in range(ghost_get("nsegs")):
        total = total + slen(ghost_get("seg%d" % i))
    return total


def segs_lemmas():
    ok = True
    for i in range(ghost_get("nsegs")):
        ok = ok and use_lemma(cat_len, ghost_get("seg%d" % i))
    return ok


def _contract_any(sid_first, rc, er, sid_r):
    nm = "any-list-%s%s%s-req%s" % (("S.R" if sid_first else "R.S") if rc else "S", "", "E" if er else "e",
                                    "S" if sid_r else "s")
    a = {"answer": _answer_any(er), "sid": _sid(), "request": _request(sid_r)}
    if rc:
        a["rc"] = _rc()

    @contract("bromelia.bromelia.decorate_answer", prop="C12", name=nm)
    class _C:
        """decorate_answer on an answer holding ANY number of AVPs: identity of the request, the request's
        Session-Id carried by the answer's (listed) Session-Id AVP, E bit exactly for 3xxx/4xxx/5xxx, the
        named Result-Code AVP gone (from the name map and from the list) when an Experimental-Result is
        present, and Message Length == 20 + the on-wire size of the FINAL list"""
        args = a
        setup = _placer(sid_first, rc)
        assumes = ("A-DISTINCT: the AVP objects named session_id_avp / result_code_avp are listed once each "
                   "(no other list position holds the same object)",)

        def requires(answer, sid, request):
            fl = flags_of(answer._header)
            total = 20 + segs_len() + avp_plen(None, data_of(sid))
            if rc:
                total = total + avp_plen(None, data_of(ghost_get("rc0")))
            grown = total
            if sid_r:
                grown = total - avp_plen(None, data_of(sid)) + avp_plen(None, data_of(request.session_id_avp))
            return segs_lemmas() and use_lemma(cat_len, answer._avps) and fl & 0x80 == 0 and fl & 0x20 == 0 \
                and unbe(answer._header._length) == 20 + slen(answer._avps) and total < MAX24 and grown < MAX24

        def setup_spec(answer, request):
            return ghost_set("rc0", answer.result_code_avp if rc else None)

        def call(answer, request):
            return BB.decorate_answer(answer, request)

        def ensures_identity_of_the_request(answer, request, result):
            h, q = result._header, request._header
            return result is answer and h._application_id == q._application_id \
                and h._hop_by_hop == q._hop_by_hop and h._end_to_end == q._end_to_end

        def ensures_session_id_of_the_request(answer, sid, request):
            return same(answer.session_id_avp, sid) and \
                ((not sid_r) or sid._data == request.session_id_avp._data)

        def ensures_error_flag_iff_3xxx_4xxx_5xxx(answer, old):
            if not rc:
                return flags_of(answer._header) & 0x20 == 0
            n = unbe(old.rc._data)
            return implies(n % 1000 != 0,
                           (flags_of(answer._header) & 0x20 != 0) == (n // 1000 == 3 or n // 1000 == 4 or n // 1000 == 5))

        def ensures_result_code_gone_beside_experimental_result(answer, old):
            if not (rc and er):
                return True
            y = ghost_get("rm_removed")
            return not ("result_code_avp" in answer.__dict__) \
                and answer._avps == ghost_get("rm_before") + ghost_get("rm_after") \
                and enc_of(y) == enc_of(old.rc)

        def ensures_message_length_matches_content(answer, old):
            if rc and er:
                y, v = ghost_get("rm_removed"), old.rc
                ok = use_lemma(cat_len, ghost_get("rm_before")) and use_lemma(cat_len, ghost_get("rm_after")) \
                    and proved(len(enc_of(y)) == avp_plen(view_vendor(y), data_of(y)), "wire-size-of-removed") \
                    and proved(len(enc_of(v)) == avp_plen(view_vendor(v), data_of(v)), "wire-size-of-named") \
                    and proved(slen(ghost_get("rm_old")) == slen(ghost_get("rm_before"))
                               + avp_plen(view_vendor(y), data_of(y)) + slen(ghost_get("rm_after")), "old-list-size-splits") \
                    and proved(slen(answer._avps) == slen(ghost_get("rm_before")) + slen(ghost_get("rm_after")), "new-list-size")
                return ok and unbe(answer._header._length) == 20 + slen(answer._avps)
            return unbe(answer._header._length) == 20 + slen(answer._avps)

        def ensures_other_flags_untouched(answer, old):
            return flags_of(answer._header) & 0xdf == flags_of(old.answer._header) & 0xdf

        def exceptional(exc):
            return False

        if rc and not er:
            def control_flag_never_set(answer):
                return flags_of(answer._header) & 0x20 == 0
        if sid_r:
            def control_stale_length(answer, old):
                return answer._header._length == old.answer._header._length
    return _C


import os as _os                                                      # noqa: E402
for _sr in (False, True):
    _contract_any(True, False, False, _sr)
    for _er_ in (False, True):
        for _first in (True, False):
            if _sr and _er_ and _os.environ.get("VERIF_TIER") != "thorough":
                # in-place Session-Id assignment FOLLOWED by the pop of the Result-Code: ~70 paths of a
                # sequence-heavy context, 10-15 minutes -- thorough tier only (the quick tier proves the
                # assignment and the pop separately: *e-reqS and *E-reqs)
                continue
            _contract_any(_first, True, _er_, _sr)
