"""C12 -- answers leaving a route carry the request's identity and a correct error flag.

decorate_answer(answer, request) is proved for every header content, every Session-Id of any
length, every 32-bit Result-Code, with / without Session-Id, Result-Code and Experimental-Result.
BOUNDED in one dimension only: the answer holds its named AVPs plus at most one further AVP (the
AVP objects are mutated in place by the function, which the unbounded sequence model treats as
immutable snapshots); every AVP field is symbolic.
"""
from pyvc.api import contract, T
from pyvc.spec import implies, unbe, be, use_lemma, is_instance_of, lib_error
import bromelia.base as B
import bromelia.bromelia as BB
from bromelia.avps.ietf.rfc6733 import SessionIdAVP, ResultCodeAVP, ExperimentalResultAVP
from contracts.common import header_shape, generic_avp_shape, slen, cat, cat_len, avp_plen, view_vendor, data_of, MAX24


def _sid():
    return T.Obj(SessionIdAVP, slots={"_flags": T.Bytes(1), "_data": T.Bytes(minlen=1, maxlen=4096), "_vendor_id": T.NoneS,
                                      "_padding": T.NoneS},
                 idict={"code": T.Const(SessionIdAVP.code), "vendor_id": T.NoneS})


def _rc():
    return T.Obj(ResultCodeAVP, slots={"_flags": T.Bytes(1), "_data": T.Bytes(4), "_vendor_id": T.NoneS,
                                       "_padding": T.NoneS},
                 idict={"code": T.Const(ResultCodeAVP.code), "vendor_id": T.NoneS})


def _er():
    return T.Obj(ExperimentalResultAVP, slots={"_flags": T.Bytes(1), "_data": T.Bytes(minlen=1, maxlen=64), "_vendor_id": T.NoneS,
                                               "_padding": T.NoneS},
                 idict={"code": T.Const(ExperimentalResultAVP.code), "vendor_id": T.NoneS, "_avps": T.ListOf()})


def _answer(sid, rc, er, extra, header=None):
    items, alias = [], {}
    if sid:
        alias["session_id_avp"] = ("_avps", len(items)); items.append(_sid())
    if extra:
        items.append(generic_avp_shape(data=T.Bytes(maxlen=64)))
    if rc:
        alias["result_code_avp"] = ("_avps", len(items)); items.append(_rc())
    if er:
        alias["experimental_result_avp"] = ("_avps", len(items)); items.append(_er())
    return T.Obj(B.DiameterAnswer,
                 idict={"_header": header or header_shape(), "_avps": T.ListOf(*items), "_loaded": T.Const(False)},
                 alias=alias)


def _request(sid):
    items, alias = [], {}
    if sid:
        alias["session_id_avp"] = ("_avps", 0); items.append(_sid())
    return T.Obj(B.DiameterRequest,
                 idict={"_header": header_shape(), "_avps": T.ListOf(*items), "_loaded": T.Const(False)},
                 alias=alias)


def flags_of(h):
    return unbe(h._flags)


def has_code(avps, code):
    found = False
    for a in avps:
        if a.code == code:
            found = True
    return found


def _contract(sid_a, rc, er, extra, sid_r):
    nm = "%s%s%s%s-req%s" % ("S" if sid_a else "s", "R" if rc else "r", "E" if er else "e",
                             "X" if extra else "x", "S" if sid_r else "s")

    @contract("bromelia.bromelia.decorate_answer", prop="C12", name=nm)
    class _C:
        args = {"answer": _answer(sid_a, rc, er, extra), "request": _request(sid_r)}
        bounded = "answers holding their named AVPs plus at most one further AVP (all field contents symbolic)"

        def requires(answer, request):
            # what a route handler hands over: an answer (R and E clear) whose Message Length is consistent
            return flags_of(answer._header) & 0x80 == 0 and flags_of(answer._header) & 0x20 == 0 \
                and unbe(answer._header._length) == 20 + slen(answer._avps) \
                and ((not extra) or answer._avps[1].code != ResultCodeAVP.code)   # at most one Result-Code AVP

        def ensures_identity_of_the_request(answer, request, result):
            h, q = result._header, request._header
            return result is answer and h._application_id == q._application_id \
                and h._hop_by_hop == q._hop_by_hop and h._end_to_end == q._end_to_end

        def ensures_session_id_of_the_request(answer, request):
            return (not sid_r) or answer.session_id_avp._data == request.session_id_avp._data

        def ensures_error_flag_iff_3xxx_4xxx_5xxx(answer, old):
            if not rc:
                return flags_of(answer._header) & 0x20 == 0
            n = unbe(old.answer.result_code_avp._data)
            return implies(n % 1000 != 0,
                           (flags_of(answer._header) & 0x20 != 0) == (n // 1000 == 3 or n // 1000 == 4 or n // 1000 == 5))

        def ensures_no_result_code_beside_experimental_result(answer):
            return (not er) or not has_code(answer._avps, ResultCodeAVP.code)

        def ensures_message_length_matches_content(answer):
            return unbe(answer._header._length) == 20 + slen(answer._avps)

        def ensures_other_flags_untouched(answer, old):
            return flags_of(answer._header) & 0xdf == flags_of(old.answer._header) & 0xdf

        def exceptional(exc):
            return False

        if rc and not er:
            def control_flag_never_set(answer):
                return flags_of(answer._header) & 0x20 == 0
    return _C


for _rc_ in (False, True):
    for _er_ in (False, True):
        for _sr in (False, True):
            _contract(True, _rc_, _er_, False, _sr)
_contract(True, True, False, True, True)      # one further (generic, symbolic) AVP between the named ones
_contract(True, True, True, True, False)
# an answer without Session-Id for a request without one
_contract(False, True, False, False, False)
