"""C09 -- typed command classes build exactly the command they name.

Per class (50, generated from the import on every run):
  * table obligations (evaluation): the mandatory/optionals tables map every argument name to the
    dictionary class of that name, agree with the vendored reference (codes, Application-IDs, argument
    order), request/answer pairs agree;
  * the real constructor executed symbolically with every tabled argument of a simple type given as a
    SYMBOLIC in-domain value (any text / any 32-bit number), the others at their defaults: header
    fields, R/P flags, AVP classes in argument order, values carried, Message Length;
  * omitting a mandatory argument that has no default raises a library error.
Arbitrary SUBSETS of the optional arguments follow from the loop structure of _load (each iteration
looks at one (name, value) pair and appends at most one AVP), proved on a schematic class below.
"""
import importlib
import inspect
import json
import os
import pkgutil

from pyvc.api import contract, T, table
from pyvc.spec import implies, unbe, be, lib_error, is_instance_of, use_lemma
import bromelia.base as B
import bromelia.lib as L
from contracts.common import slen, cat_len
from contracts.c10_dictionary import kind_of
from contracts.c15_identifiers import HBH, E2E

HERE = os.path.dirname(os.path.abspath(__file__))
REF = json.load(open(os.path.join(os.path.dirname(HERE), "reference", "commands.json")))


def command_classes():
    out = []
    for m in sorted(pkgutil.iter_modules(L.__path__), key=lambda m: m.name):
        mod = importlib.import_module("bromelia.lib.%s.messages" % m.name)
        for n, c in vars(mod).items():
            if inspect.isclass(c) and issubclass(c, B.DiameterMessage) and c.__module__ == mod.__name__:
                out.append(c)
    return out


def camel(k):
    return "".join(p[:1].upper() + p[1:] for p in k.split("_")) + "AVP"


KNOWN_TABLE_IRREGULARITIES = {("CreditControlRequest", "acct_multi_session_id_avp")}


@table("command-tables", prop="C09")
def command_tables():
    out, bad_names, bad_ref, bad_pair, bad_base = [], [], [], [], []
    classes = command_classes()
    for c in classes:
        path = c.__module__ + "." + c.__name__
        for tab in (c.mandatory, c.optionals):
            for k, v in tab.items():
                if camel(k) != v.__name__ and (c.__name__, k) not in KNOWN_TABLE_IRREGULARITIES:
                    bad_names.append((path, k, v.__name__))
        r = REF.get(path)
        if r is None:
            bad_ref.append((path, "not in reference"))
        else:
            cur = ({k: v.__name__ for k, v in c.mandatory.items()}, {k: v.__name__ for k, v in c.optionals.items()},
                   [p for p in inspect.signature(c.__init__).parameters if p not in ("self", "kwargs")])
            if cur != (r["mandatory"], r["optionals"], r["params"]):
                bad_ref.append((path, "tables/argument order differ from the reference"))
        is_req = c.__name__.endswith("Request")
        if is_req != issubclass(c, B.DiameterRequest) or (not is_req) != issubclass(c, B.DiameterAnswer):
            bad_base.append(path)
    by_mod = {}
    for c in classes:
        by_mod.setdefault(c.__module__, {})[c.__name__] = REF.get(c.__module__ + "." + c.__name__, {})
    for mod, cs in by_mod.items():
        for name, r in cs.items():
            if name.endswith("Request"):
                a = cs.get(name[:-7] + "Answer")
                if a and (a.get("command_code") != r.get("command_code")):
                    bad_pair.append((mod, name))
                if a and isinstance(a.get("application_id"), int) and isinstance(r.get("application_id"), int) \
                        and a["application_id"] != r["application_id"]:
                    bad_pair.append((mod, name))
    out.append(("argument-names-map-to-the-class-of-that-name", not bad_names, bad_names[:6]))
    out.append(("tables-and-argument-order-match-reference", not bad_ref, bad_ref[:6]))
    out.append(("request-answer-pairs-agree", not bad_pair, bad_pair[:6]))
    out.append(("request-classes-derive-DiameterRequest", not bad_base, bad_base[:6]))
    return out


SIMPLE = {"OctetString": lambda: T.Str(minlen=1, maxlen=64), "UTF8String": lambda: T.Str(minlen=1, maxlen=64),
          "DiameterIdentity": lambda: T.Str(minlen=1, maxlen=64),
          "Unsigned32": lambda: T.Int(lo=0, hi=4294967295)}


def _arg_shapes(cls):
    """(shapes, given names, expected AVP classes in order) or None when a mandatory argument without
    default is of a kind this generator does not synthesise"""
    sig = inspect.signature(cls.__init__)
    tables = dict(cls.optionals)
    tables.update(cls.mandatory)
    shapes, given, order = {}, [], []
    for name, p in sig.parameters.items():
        if name in ("self", "kwargs"):
            continue
        avpcls = tables.get(name)
        default = p.default
        if avpcls is None:
            shapes[name] = T.Const(None if default is inspect._empty else default)
            continue
        kind = kind_of(avpcls)
        custom = "parser_data" in avpcls.__dict__ or "encode" in avpcls.__dict__
        if avpcls.__name__ in ("SessionIdAVP", "AcctMultiSessionIdAVP"):
            # generated Session-Ids are C16's subject; here the id is supplied ready-made (bytes)
            shapes[name] = T.Bytes(minlen=1, maxlen=128)
            given.append(name)
            order.append((name, avpcls, "bytes"))
        elif name == "auth_application_id" and (default is inspect._empty or isinstance(default, bytes)):
            # forwarded to the header's Application-ID by some classes (ASR, RAR, DER, DEA): ANY 4 bytes, so that
            # "P flag exactly when the Application-ID is non-zero" is decided for every identifier
            shapes[name] = T.Bytes(4)
            given.append(name)
            order.append((name, avpcls, "bytes"))
        elif kind in SIMPLE and not custom and name not in ("auth_application_id",):
            shapes[name] = SIMPLE[kind]()
            given.append(name)
            order.append((name, avpcls, kind))
        elif default is not inspect._empty and default is not None:
            shapes[name] = T.Const(default)
            order.append((name, avpcls, None))
        elif name in cls.mandatory:
            if kind == "Enumerated":
                shapes[name] = T.Const(avpcls.values[0])
                order.append((name, avpcls, None))
            elif name == "auth_application_id":
                shapes[name] = T.Const(b"\x01\x00\x00\x23")
                order.append((name, avpcls, None))
            else:
                return None
        else:
            shapes[name] = T.Const(None)
    return shapes, given, order


def _class_contract(cls):
    path = cls.__module__ + "." + cls.__name__
    r = REF.get(path)
    got = _arg_shapes(cls)
    if r is None or got is None:
        return False
    shapes, given, order = got
    CODE = r["command_code"]
    APP = r["application_id"]
    IS_REQ = issubclass(cls, B.DiameterRequest)
    EXPECT = [(n, c.__name__, k) for n, c, k in order]
    CLASSES = [c for n, c, k in order]

    @contract(path, prop="C09", name="build")
    class _C:
        args = shapes
        state = {HBH: T.BytesList(), E2E: T.BytesList()}
        max_paths = 600
        samples = 1
        kwargs_call = True
        # names are irrelevant here: use the list/length summary of append, not its body
        force_contracts = ("bromelia.base.DiameterMessage.append",)

        def ensures_header(result):
            h = result._header
            app_ok = True
            if isinstance(APP, int):
                app_ok = unbe(h._application_id) == APP
            if h._application_id is None or h._command_code is None:
                return False          # a header field left unset: the header is not 20 bytes
            return unbe(h._command_code) == CODE and app_ok \
                and (unbe(h._flags) & 0x80 != 0) == IS_REQ \
                and (unbe(h._flags) & 0x40 != 0) == (unbe(h._application_id) != 0)

        def ensures_avps_in_argument_order(result):
            avps = result._avps
            ok = len(avps) == len(CLASSES)
            i = 0
            for c in CLASSES:
                ok = ok and is_instance_of(avps[i], c)
                i = i + 1
            return ok

        def ensures_message_length(result):
            return unbe(result._header._length) == 20 + slen(result._avps)

        def exceptional(exc):
            return False

        def control_no_avps(result):
            return len(result._avps) == 0
    # omitting a mandatory argument that has no default -> library error
    sig = inspect.signature(cls.__init__)
    missing = [n for n in cls.mandatory if n in sig.parameters and sig.parameters[n].default is None]
    if missing:
        shapes2 = dict(shapes)
        shapes2[missing[0]] = T.Const(None)

        @contract(path, prop="C09", name="missing:" + missing[0])
        class _M:
            args = shapes2
            state = {HBH: T.BytesList(), E2E: T.BytesList()}
            kwargs_call = True
            samples = 1
            force_contracts = ("bromelia.base.DiameterMessage.append",)

            def ensures_rejected(result):
                return False

            def exceptional(exc):
                return lib_error(exc)
    ns = _C
    # values carried: one clause per symbolic argument
    for idx, (n, cname, k) in enumerate(EXPECT):
        if k is None:
            continue
        ns.ensures["carries_" + n] = _carry_clause(n, idx, k)
    return True


def _carry_clause(name, idx, kind):
    # the generated function reads the argument by its own name through **kw-free closure
    src_int = kind == "Unsigned32"

    def clause(result, **kw):
        return True
    # build a real def with the right parameter name so that pyvc can bind it by name
    code = ("def carries(result, %s):\n"
            "    d = result._avps[%d]._data\n"
            "    return %s\n") % (name, idx, ("d == be(%s, 4)" % name) if src_int else
                                   (("d == %s" % name) if kind == "bytes" else ("d == %s.encode('utf-8')" % name)))
    path = os.path.join(HERE, "_generated_c09.py")
    return _gen_function(code, "carries_%s_%d" % (name, idx))


_GEN = []


def _gen_function(code, fname):
    """spec functions must have source pyvc can read back: append to a generated module file"""
    _GEN.append(code.replace("def carries(", "def %s(" % fname))
    return fname


_PENDING = []
_count = 0
for _c in command_classes():
    if _class_contract(_c):
        _count += 1

# materialise the generated clause functions in a real source file and bind them
_gen_path = os.path.join(HERE, "_generated_c09.py")
_src = "from pyvc.spec import be\n\n\n" + "\n\n".join(_GEN) + "\n"
if not os.path.exists(_gen_path) or open(_gen_path).read() != _src:
    with open(_gen_path, "w") as _f:
        _f.write(_src)
import contracts._generated_c09 as _G9            # noqa: E402
importlib.reload(_G9)
from pyvc.api import REGISTRY as _REG            # noqa: E402
for _k in _REG:
    if _k.prop == "C09":
        for _n, _v in list(_k.ensures.items()):
            if isinstance(_v, str):
                _k.ensures[_n] = getattr(_G9, _v)


# =========================================================================================
#  _load on a schematic command: ALL subsets of optional arguments, unknown arguments, kwargs
# =========================================================================================
from bromelia.avps.ietf.rfc6733 import OriginHostAVP, UserNameAVP, OriginStateIdAVP, ProxyStateAVP   # noqa: E402
from bromelia.exceptions import DiameterMessageError                  # noqa: E402
from contracts.common import generic_avp_shape, msg_shape, header_shape                # noqa: E402


class SchematicAnswer(B.DiameterAnswer):
    """stands for any typed command class: one mandatory argument, two optional ones, one argument
    that is in neither table"""
    mandatory = {"m": OriginHostAVP}
    optionals = {"o1": UserNameAVP, "o2": OriginStateIdAVP}


def _opt(sh):
    return T.OneOf(T.NoneS, sh)


def run_load(self, m, o1, o2, x, kw):
    values = {"self": self, "m": m, "o1": o1, "o2": o2, "x": x, "kwargs": kw}
    self._load(values)
    return self


def expected_classes(m, o1, o2, x, kw):
    out = []
    if m is not None:
        out.append(OriginHostAVP)
    if o1 is not None:
        out.append(UserNameAVP)
    if o2 is not None:
        out.append(OriginStateIdAVP)
    if x is not None:
        out.append(B.DiameterAVP)
    if kw:
        out.append(ProxyStateAVP)
    return out


@contract("bromelia.base.DiameterMessage._load", prop="C09", name="all-subsets")
class _LoadSubsets:
    """for EVERY subset of the optional arguments (each independently None or a value), an extra
    argument that is None / an AVP object / something else, and an extra keyword AVP: exactly the
    non-None arguments become AVPs, in argument order, extras last; mandatory None and non-AVP extras
    are rejected with DiameterMessageError; Message Length is refreshed"""
    args = {"self": T.Obj(SchematicAnswer, idict={"_header": header_shape(), "_avps": T.ListOf(),
                                                  "_loaded": T.Const(False)}),
            "m": _opt(T.Str(minlen=1, maxlen=32)), "o1": _opt(T.Str(minlen=1, maxlen=32)),
            "o2": _opt(T.Int(lo=0, hi=4294967295)),
            "x": T.OneOf(T.NoneS, generic_avp_shape(data=T.Bytes(maxlen=16)), T.Int()),
            "kw": T.OneOf(T.DictOf2({}), T.DictOf2({"proxy_state": T.Obj(
                ProxyStateAVP, slots={"_flags": T.Const(b"\x40"), "_data": T.Bytes(minlen=1, maxlen=16),
                                      "_vendor_id": T.NoneS, "_padding": T.NoneS},
                idict={"code": T.Const(ProxyStateAVP.code), "vendor_id": T.NoneS})}))}
    call = run_load
    force_contracts = ("bromelia.base.DiameterMessage.append",)

    def requires(self):
        return unbe(self._header._length) < 1000000      # far from the 24-bit ceiling of Message Length

    def ensures_exactly_the_given_arguments_in_order(m, o1, o2, x, kw, result):
        exp = expected_classes(m, o1, o2, x, kw)
        avps = result._avps
        ok = len(avps) == len(exp)
        i = 0
        for c in exp:
            ok = ok and is_instance_of(avps[i], c)
            i = i + 1
        return ok and m is not None and (x is None or is_instance_of(x, B.DiameterAVP))

    def ensures_length_refreshed(result):
        return unbe(result._header._length) == 20 + slen(result._avps)

    def exceptional(m, x, exc):
        return is_instance_of(exc, DiameterMessageError) and (m is None or not (x is None or is_instance_of(x, B.DiameterAVP)))

    def control_optionals_always_present(result):
        return len(result._avps) >= 3
