"""C10 -- the AVP dictionary is unambiguous and every class enforces its declared type.

One generated contract per registered class (re-generated from the import of the tree under
check on every run): the real __init__ is executed symbolically for every typed kind of `data`
(bytes of any length, str, int, None, an arbitrary object, float, and the type's natural inputs).
On normal return the object must carry the class's code / vendor / V bit / default flags and data
well formed for the declared type; junk inputs must not return normally.  The published identity
(docs, definitions.py, vendored reference dictionary) is compared by table obligations.
"""
import json
import os
import re as _re

from pyvc.api import contract, T, table
from pyvc.spec import implies, unbe, be, raw, is_instance_of, lib_error, slot, UNSET
import bromelia.base as B
import bromelia.types as TY
from bromelia.constants import (HOST_IP_ADDRESS_FAMILY_CODE_IPV4, HOST_IP_ADDRESS_FAMILY_CODE_IPV6)
from contracts.common import MAX24, generic_avp_shape

HERE = os.path.dirname(os.path.abspath(__file__))
REF = json.load(open(os.path.join(os.path.dirname(HERE), "reference", "avp_dictionary.json")))


def kind_of(cls):
    for b in cls.__mro__:
        if b.__module__ == "bromelia.types" and b.__name__ != "BaseDataType":
            return b.__name__[:-4]
    return "?"


def registered_classes():
    seen, out = set(), []
    for c in B.DiameterAVP.__subclasses__():
        if id(c) in seen:
            continue
        seen.add(id(c))
        out.append(c)
    return out


def wf_data(kind, values, d):
    """data `d` is a well-formed encoding for the declared type"""
    if not isinstance(d, bytes):
        return False
    if kind == "Unsigned32" or kind == "Integer32" or kind == "Time":
        return len(d) == 4
    if kind == "Enumerated":
        return len(d) == 4 and d in values
    if kind == "Unsigned64":
        return len(d) == 8
    if kind == "Address":
        return implies(d[:2] == HOST_IP_ADDRESS_FAMILY_CODE_IPV4, len(d) == 6) and \
            implies(d[:2] == HOST_IP_ADDRESS_FAMILY_CODE_IPV6, len(d) == 18)
    return True


JUNK = ("none", "opaque", "float")


def _cases(kind):
    cs = {"bytes": T.Bytes(maxlen=4096), "str": T.Str(maxlen=1024), "int": T.Int(),
          "none": T.NoneS, "opaque": T.OpaqueS(), "float": T.Float(1.5)}
    if kind == "Time":
        cs["datetime"] = T.DateTime()
    if kind == "Grouped":
        cs["list0"] = T.ListOf()
        cs["list1"] = T.ListOf(generic_avp_shape(data=T.Bytes(maxlen=64)))
        cs["list2"] = T.ListOf(generic_avp_shape(data=T.Bytes(maxlen=64)), generic_avp_shape(data=T.Bytes(maxlen=64)))
        cs["list-bad"] = T.ListOf(T.Int())
    return cs


def _make(cls):
    kind = kind_of(cls)
    if "parser_data" in cls.__dict__ or "encode" in cls.__dict__:
        # the class customises its input format (EAP-Payload objects, packed Framed-IP-Address,
        # TBCD numbers): only "data is bytes" is required of it here
        kind = "Custom" + kind
    path = cls.__module__ + "." + cls.__name__
    ref = REF.get(path)
    CODE, VENDOR = cls.code, cls.vendor_id
    VALUES = list(getattr(cls, "values", [])) if kind == "Enumerated" else []
    DFLAGS = None if ref is None else ref["default_flags"]
    MANDATORY = [m.code for m in getattr(cls, "mandatory", {}).values()] if kind == "Grouped" else []
    for cname, shape in _cases(kind).items():
        _one(cls, path, kind, cname, shape, CODE, VENDOR, VALUES, DFLAGS, MANDATORY)


def _one(cls, path, kind, cname, shape, CODE, VENDOR, VALUES, DFLAGS, MANDATORY):
    @contract(path, prop="C10", name=cname)
    class _C:
        args = {"data": shape}
        max_paths = 400
        # generated family (1648 contracts): sampled natively in the thorough tier only
        samples = 1 if os.environ.get("VERIF_TIER") == "thorough" else 0

        def ensures_identity(result):
            return raw(result, "code") == CODE and raw(result, "vendor_id") == VENDOR \
                and (unbe(result._flags) & 0x80 != 0) == (VENDOR is not None) \
                and slot(result, "_vendor_id") == VENDOR

        def ensures_default_flags(result):
            return DFLAGS is None or unbe(result._flags) == DFLAGS

        def ensures_type_enforced(data, result):
            return cname not in JUNK and cname != "list-bad" and wf_data(kind, VALUES, slot(result, "_data"))

        if cname == "bytes" and kind != "Grouped" and not kind.startswith("Custom"):
            def ensures_wire_data_kept(data, result):
                return result._data == data

        if cname == "int" and kind == "Unsigned32":
            def ensures_value_encoded(data, result):
                return result._data == be(data, 4)

        if cname == "str" and kind in ("OctetString", "UTF8String", "DiameterIdentity") \
                and cls.__name__ not in ("SessionIdAVP", "AcctMultiSessionIdAVP"):
            def ensures_text_encoded(data, result):
                return result._data == data.encode("utf-8")

        if kind == "Grouped" and MANDATORY and cname not in JUNK and cname != "list-bad":
            def ensures_mandatory_members_present(result):
                codes = [avp.code for avp in result.avps]
                ok = True
                for m in MANDATORY:
                    ok = ok and m in codes
                return ok

        def exceptional(exc):
            return True                       # C10 allows any exception; C03 restricts wire input

        if cname == "bytes":
            def control_anything_goes(data, result):
                return len(result._data) == 5
    return _C


for _c in registered_classes():
    _make(_c)


# =========================================================================================
#  table obligations over the finite registry / published dictionaries (back end: eval)
# =========================================================================================
def _defsig(c):
    import inspect
    import textwrap
    return (c.__name__, c.code, c.vendor_id, tuple(b.__name__ for b in c.__bases__),
            textwrap.dedent(inspect.getsource(c.__init__)))


@table("registry-is-a-function", prop="C10")
def registry_is_a_function():
    out = []
    by_key = {}
    for c in B.DiameterAVP.__subclasses__():
        by_key.setdefault((c.vendor_id, c.code), []).append(c)
    clashes = []
    for key, cs in by_key.items():
        sigs = {_defsig(c) for c in cs}
        if len(sigs) > 1:
            clashes.append((key, [c.__module__ + "." + c.__name__ for c in cs]))
    out.append(("no-two-different-definitions-share-vendor-and-code", not clashes, clashes))
    # widths of the class attributes
    bad = [c.__name__ for c in B.DiameterAVP.__subclasses__()
           if not (isinstance(c.code, bytes) and len(c.code) == 4
                   and (c.vendor_id is None or (isinstance(c.vendor_id, bytes) and len(c.vendor_id) == 4)))]
    out.append(("class-code-and-vendor-have-field-width", not bad, bad))
    return out


@table("registry-dispatch", prop="C10", also=("C02", "C09"))
def registry_dispatch():
    """the real DiameterAvpLoader.get_avp_class dispatches every registered (vendor, code) to its
    class and every unregistered neighbour key to KeyError (executed natively, finite)"""
    out = []
    wrong = []
    keys = set()
    for c in B.DiameterAVP.__subclasses__():
        keys.add((c.vendor_id, c.code))
        probe = B.DiameterAVP(code=c.code, vendor_id=c.vendor_id, flags=0x80 if c.vendor_id else 0)
        got = B.loader.get_avp_class(probe)
        if _defsig(got) != _defsig(c):
            wrong.append((c.__name__, got.__name__))
    out.append(("every-registered-key-dispatches-to-its-class", not wrong, wrong))
    leaks = []
    for (v, code) in sorted(keys, key=lambda k: (k[0] or b"", k[1])):
        for v2 in (None, b"\x00\x00\x00\x09", b"\x00\x00\x28\xaf", b"\x00\x00\x32\xdb"):
            if (v2, code) in keys:
                continue
            probe = B.DiameterAVP(code=code, vendor_id=v2, flags=0x80 if v2 else 0)
            try:
                got = B.loader.get_avp_class(probe)
                leaks.append((v2, code, got.__name__))
            except KeyError:
                pass
    out.append(("unregistered-vendor-code-pairs-raise-KeyError", not leaks, leaks[:8]))
    # explicit Vendor-ID 0 (V bit set, vendor field 00000000) must not alias the vendor-less table
    zero = []
    for (v, code) in sorted(keys, key=lambda k: (k[0] or b"", k[1])):
        if v is None:
            probe = B.DiameterAVP(code=code, vendor_id=b"\x00\x00\x00\x00", flags=0x80)
            try:
                zero.append(B.loader.get_avp_class(probe).__name__)
            except KeyError:
                pass
    out.append(("vendor-id-zero-is-not-the-vendorless-table", not zero, "%d vendor-less classes reachable with Vendor-ID 0" % len(zero)))
    # the registry follows the class hierarchy: a class defined AFTER the first lookup is dispatched to
    # (runs in a forked worker process, so the extra class never leaks into another task)
    import bromelia.types as _TY
    used = {c.code for c in B.DiameterAVP.__subclasses__() if c.vendor_id is None}
    newcode = next(bytes([0, 0, 0xfe, i]) for i in range(256) if bytes([0, 0, 0xfe, i]) not in used)
    B.loader.get_avp_class(B.DiameterAVP(code=1))       # force at least one lookup first

    class LateRegisteredProbeAVP(B.DiameterAVP, _TY.OctetStringType):
        code = newcode
        vendor_id = None

        def __init__(self, data):
            B.DiameterAVP.__init__(self, LateRegisteredProbeAVP.code)
            _TY.OctetStringType.__init__(self, data=data)
    try:
        got = B.loader.get_avp_class(B.DiameterAVP(code=newcode))
        late_ok = got is LateRegisteredProbeAVP
    except KeyError:
        late_ok = False
    out.append(("class-defined-after-first-lookup-is-dispatched", late_ok, "late class not found"))
    return out


@table("override-scan", prop="C10")
def override_scan():
    """every dictionary class has the schematic shape the method contracts of DiameterAVP were proved
    for: it shadows only `code`/`vendor_id` (+ its own helpers), never the inherited accessors"""
    protected = ["flags", "data", "length", "padding", "dump", "load", "get_code", "get_flags", "get_length",
                 "get_vendor_id", "get_padding_length", "is_vendor_id", "is_mandatory", "is_protected",
                 "set_vendor_id_bit", "set_mandatory_bit", "set_protected_bit", "__eq__", "__len__", "__bytes__"]
    bad = []
    for c in B.DiameterAVP.__subclasses__():
        for k in c.__mro__:
            if k is B.DiameterAVP:
                break
            for name in protected:
                if name in k.__dict__ and not (name == "load" and k.__module__ == "bromelia.types"):
                    bad.append((c.__name__, k.__name__, name))
    return [("no-dictionary-class-overrides-the-contracted-accessors", not bad, bad[:10])]


KNOWN_DOC_DISCREPANCIES = {
    # recorded, not silently allow-listed (DESIGN.md): docs row disagrees with the class
    ("PriorityLevelAVP", "code"), ("FlowDescriptionAVP", "type"),
}


@table("published-dictionary", prop="C10")
def published_dictionary():
    out = []
    classes = {c.__name__: c for c in B.DiameterAVP.__subclasses__()}
    # -- vendored reference dictionary (frozen from the pinned tree)
    diffs = []
    for path, r in REF.items():
        c = classes.get(r["class"])
        if c is None:
            diffs.append((r["class"], "missing"))
            continue
        cur = (int.from_bytes(c.code, "big"), None if c.vendor_id is None else int.from_bytes(c.vendor_id, "big"),
               kind_of(c))
        if cur != (r["code"], r["vendor"], r["type"]):
            diffs.append((r["class"], cur, (r["code"], r["vendor"], r["type"])))
    out.append(("matches-vendored-reference-dictionary", not diffs, diffs[:8]))
    # -- docs/list-of-avps.md
    repo = os.path.dirname(os.path.dirname(B.__file__))
    rows = []
    for line in open(os.path.join(repo, "docs", "list-of-avps.md")):
        m = _re.match(r"\|\d+\|`([^`]+)`\|(\d+)\|([A-Za-z0-9]+)\|.*\|([A-Za-z0-9]+AVP)\s*$", line.strip())
        if m:
            rows.append(m.groups())
    ddiffs = []
    for name, code, typ, cname in rows:
        c = classes.get(cname)
        if c is None:
            ddiffs.append((cname, "class missing"))
            continue
        if int(code) != int.from_bytes(c.code, "big") and (cname, "code") not in KNOWN_DOC_DISCREPANCIES:
            ddiffs.append((cname, "code", int(code), int.from_bytes(c.code, "big")))
        if typ != kind_of(c) and (cname, "type") not in KNOWN_DOC_DISCREPANCIES:
            ddiffs.append((cname, "type", typ, kind_of(c)))
    out.append(("docs-rows-parsed", len(rows) > 150, len(rows)))
    out.append(("matches-docs-list-of-avps", not ddiffs, ddiffs[:8]))
    # -- definitions.py (IANA names of vendor-less AVPs): name <-> code
    from bromelia.definitions import diameter_avps
    iana = {d["id"]: d["name"] for d in diameter_avps}
    ndiffs = []
    for name, code, typ, cname in rows:
        c = classes.get(cname)
        if c is not None and c.vendor_id is None and int(code) in iana and iana[int(code)] != name:
            ndiffs.append((cname, name, iana[int(code)]))
    out.append(("names-match-definitions-py", not ndiffs, ndiffs[:8]))
    return out


# =========================================================================================
#  per-class SUMMARY contracts used at call sites (callers are checked against these, never
#  against the constructor bodies); each clause restates obligations proved above for the class
# =========================================================================================
from pyvc.values import SBytes, SStr, SInt, SObj                      # noqa: E402
from bromelia.exceptions import (DataTypeError, AVPAttributeValueError, AVPParsingError,     # noqa: E402
                                 DiameterAvpError)

_SUMMARY_KINDS = {
    "bytes": lambda v: isinstance(v, (bytes, SBytes)),
    "str": lambda v: isinstance(v, (str, SStr)),
    "int": lambda v: isinstance(v, (int, SInt)) and not isinstance(v, bool),
}


def _summary(cls):
    kind = kind_of(cls)
    if "parser_data" in cls.__dict__ or "encode" in cls.__dict__ or kind == "Grouped":
        return
    if cls.__name__ in ("SessionIdAVP", "AcctMultiSessionIdAVP"):
        inputs = ("bytes",)
    elif kind in ("OctetString", "UTF8String", "DiameterIdentity"):
        inputs = ("bytes", "str")
    elif kind == "Unsigned32":
        inputs = ("bytes", "int")
    elif kind in ("Enumerated", "Integer32", "Unsigned64", "Time", "Address", "DiameterURI"):
        inputs = ("bytes",)
    else:
        return
    path = cls.__module__ + "." + cls.__name__
    ref = REF.get(path)
    if ref is None:
        return
    CODE, VENDOR, DFLAGS = cls.code, cls.vendor_id, ref["default_flags"]
    VALUES = list(getattr(cls, "values", [])) if kind == "Enumerated" else []
    for inp in inputs:
        _summary_one(cls, path, kind, inp, CODE, VENDOR, DFLAGS, VALUES)


def _summary_one(cls, path, kind, inp, CODE, VENDOR, DFLAGS, VALUES):
    pred = _SUMMARY_KINDS[inp]

    def accepts(ctx, ns):
        return pred(ns.get("data"))

    dshape = {"bytes": T.Bytes(maxlen=4096), "str": T.Str(maxlen=1024), "int": T.Int()}[inp]

    @contract(path, prop="C10", name="summary:" + inp)
    class _S:
        args = {"data": dshape}
        at_calls = True
        proof = "table"
        accepts_fn = accepts
        returns = T.Obj(cls, slots={"_flags": T.Const(bytes([DFLAGS])), "_data": T.Bytes(maxlen=8192),
                                    "_vendor_id": T.Const(VENDOR), "_padding": T.NoneS},
                        idict={"code": T.Const(CODE), "vendor_id": T.Const(VENDOR)})
        raises = (DataTypeError, AVPAttributeValueError)
        assumes = ("per-class summary contracts (C10/<class>[summary:*]) restate, for use at call sites, the "
                   "clauses proved for that class by the C10 obligations [bytes]/[str]/[int]",)

        def ensures_data(data, result):
            if inp == "bytes":
                return result._data == data and wf_data(kind, VALUES, data)
            if inp == "str":
                return result._data == data.encode("utf-8")
            return result._data == be(data, 4) and 0 <= data and data < 4294967296

        def exceptional(data, exc):
            # string kinds accept every bytes / str value
            if kind in ("OctetString", "UTF8String", "DiameterIdentity"):
                return False
            if inp == "bytes":
                return not wf_data(kind, VALUES, data)
            return not (0 <= data and data < 4294967296)
    _S.accepts = accepts
    return _S


for _c in registered_classes():
    _summary(_c)


# =========================================================================================
#  C03: wire data (bytes of any length) handed to a dictionary class either builds the AVP or
#  raises one of the library's own error types -- the obligation DiameterAVP.load relies on
# =========================================================================================
def not_utf8(data):
    """KNOWN FINDING region KF-C03-uri-utf8: DiameterURI data that is not valid UTF-8"""
    from pyvc.spec import utf8_valid
    return not utf8_valid(data)


def _wire(cls):
    path = cls.__module__ + "." + cls.__name__
    kind = kind_of(cls)

    @contract(path, prop="C03", name="wire")
    class _W:
        args = {"data": T.Bytes(maxlen=65536)}
        max_paths = 400
        samples = 1 if os.environ.get("VERIF_TIER") == "thorough" else 0
        if kind == "DiameterURI":
            regions = {"KF-C03-uri-utf8": not_utf8}

        def ensures_is_avp(result):
            return isinstance(result, B.DiameterAVP)

        def exceptional(exc):
            return lib_error(exc)
    return _W


for _c in registered_classes():
    _wire(_c)
