"""C06 / C07 -- bounded companion over HISTORIES (never counted as proved).

The per-tick contracts of c06_statemachine.py / c07_base_answers.py are proofs about one tick; that every
history is a chain of such ticks is a modular argument.  This companion re-checks the chain on the real
objects: the REAL state classes and the REAL PeerStateMachine.get_next_state are driven natively, tick by
tick, through every sequence of events up to a length bound (both roles), with a recording stand-in for the
transport.  After every tick

  * the `ensures_*` clauses of that state's tick contract are evaluated natively (same spec functions, ghost
    snapshots taken by the contract's own setup_spec, ghost event log filled by wrappers around the real
    callees, the real validators),
  * history invariants are checked: no exception escapes a tick; the state reported as Open was preceded by a
    valid Capabilities-Exchange on this connection; at most one DPR per local stop; every CEA/DWA/DPA written
    to the transport carries the identifiers of the request consumed on that tick; having left Closed and
    come back, the transport has been released.

Events: valid / foreign CER, valid / foreign CEA, DWR, DWA, DPR, DPA, application request addressed here /
elsewhere, application answer, connect ack / nack, local stop, peer disconnect (only while Open: elsewhere it
is the recorded finding KF-C06-peer-gone), idle timeout, plain tick.
"""
import itertools
import os
import types

from pyvc.api import table


def _mk_messages():
    from bromelia.base import DiameterMessage, DiameterHeader
    from bromelia.messages import CER, CEA, DWR, DWA, DPR, DPA
    from bromelia.avps import (SessionIdAVP, OriginHostAVP, OriginRealmAVP, DestinationHostAVP,
                               DestinationRealmAVP, ResultCodeAVP)

    def ids(m, k):
        m.header.hop_by_hop = (0xcafe0000 + k).to_bytes(4, "big")
        m.header.end_to_end = (0xbeef0000 + 7 * k).to_bytes(4, "big")
        return DiameterMessage.load(m.dump())[0]

    def app(flags, dest=None):
        h = DiameterHeader(application_id=16777264, command_code=268, flags=flags)
        avps = [SessionIdAVP("s;1;2"), OriginHostAVP("peer.example"), OriginRealmAVP("example")]
        if dest:
            avps.append(DestinationHostAVP(dest))
            avps.append(DestinationRealmAVP("example"))
        if not flags & 0x80:
            avps.append(ResultCodeAVP(2001))
        return DiameterMessage(h, avps)
    peer = {"origin_host": "peer.example", "origin_realm": "example"}
    other = {"origin_host": "intruder.example", "origin_realm": "example"}
    return {
        "cer": lambda k: ids(CER(host_ip_address="10.0.0.2", **peer), k),
        "cer-foreign": lambda k: ids(CER(host_ip_address="10.0.0.2", **other), k),
        "cea": lambda k: ids(CEA(host_ip_address="10.0.0.2", **peer), k),
        "cea-foreign": lambda k: ids(CEA(host_ip_address="10.0.0.2", **other), k),
        "dwr": lambda k: ids(DWR(**peer), k), "dwa": lambda k: ids(DWA(**peer), k),
        "dpr": lambda k: ids(DPR(**peer), k), "dpa": lambda k: ids(DPA(**peer), k),
        "app-request": lambda k: ids(app(0xc0, "local.example"), k),
        "app-request-elsewhere": lambda k: ids(app(0xc0, "someone.else"), k),
        "app-answer": lambda k: ids(app(0x40), k),
    }


class RecordingTransport(object):
    """stands in for TcpClient/TcpServer: records what the association hands over and whether it was closed"""

    def __init__(self):
        self.is_connected = True
        self._stop_threads = False
        self.events = [("busy", 1)]
        self.tracking_events_count = 0
        self.streams = []
        self.closed = False
        self.connect_ok = True

    def is_write_mode(self):
        return False

    def _set_selector_events_mask(self, mode, msg=None):
        self.streams.append(msg)

    def test_connection(self):
        from pyvc import spec
        spec._GHOST.setdefault("log", []).append(("test_connection",))
        return self.connect_ok

    def close(self):
        self.closed = True
        self.is_connected = False


def _node(role):
    from pyvc.replay import _native_sync
    from bromelia._internal_utils import Connection, LocalNode, PeerNode
    from bromelia.proxy import DiameterBaseProxy
    from bromelia.setup import DiameterAssociation
    from bromelia.statemachine import PeerStateMachine
    conn = Connection(name="x", mode=role, transport_type="TCP",
                      local_node=LocalNode("local.example", "example", "10.0.0.1", 3868),
                      peer_node=PeerNode("peer.example", "example", "10.0.0.2", 3868),
                      application_ids=[], watchdog_timeout=30)
    a = DiameterAssociation(conn, DiameterBaseProxy(conn).get_default_messages())
    for name in ("_recv_messages", "_send_messages", "postprocess_recv_messages"):
        setattr(a, name, _native_sync({"kind": "queue"}))
    for name in ("lock", "postprocess_recv_messages_lock"):
        setattr(a, name, _native_sync({"kind": "lock"}))
    a.postprocess_recv_messages_ready = _native_sync({"kind": "event"})
    a.transport = RecordingTransport()
    psm = PeerStateMachine(a)
    psm.is_running = True
    return a, psm


EVENTS = ["tick", "cer", "cer-foreign", "cea", "cea-foreign", "dwr", "dwa", "dpr", "dpa", "app-request",
          "app-request-elsewhere", "app-answer", "connect-nack", "stop", "peer-disconnect", "idle"]


def _tick_contracts(api):
    import bromelia.statemachine as SM
    out = {}
    for c in api.REGISTRY:
        if c.prop == "C06" and c.name == "tick" and c.target.endswith(".run"):
            out[getattr(SM, c.target.split(".")[-2])] = c
    return out


def _old_view(state):
    a = state.association
    return types.SimpleNamespace(self=types.SimpleNamespace(
        association=types.SimpleNamespace(state_is_active=a.state_is_active,
                                          selector_mask=None),
        msg=getattr(state, "msg", None)))


RUN_INFO = {}


def run_histories(depth, roles=("SERVER", "CLIENT")):
    import inspect
    import bromelia.statemachine as SM
    import bromelia.base as B
    from pyvc import api as API, spec, replay
    from pyvc.conform import _call_spec
    SM.time.sleep = lambda *_a, **_k: None          # SLEEP_TIMER pauses are not part of the protocol
    tick = _tick_contracts(API)
    some = list(tick.values())[0]
    replay.install_loggers(API, some, keep_real="all")
    msgs = _mk_messages()
    failures, nseq, nticks = [], 0, 0
    import time as _time
    # a wall-clock budget keeps this companion inside its task limit on a loaded machine: histories are enumerated
    # shortest first, both roles per length; when the budget runs out the run stops and SAYS so (RUN_INFO)
    t_end = _time.time() + float(os.environ.get("PYVC_TABLE_BUDGET_S", "1000" if depth >= 4 else "300"))
    RUN_INFO["complete"] = True
    for n in range(1, depth + 1):
        for role in roles:
            for seq in itertools.product(EVENTS, repeat=n):
                if _time.time() > t_end:
                    RUN_INFO["complete"] = False
                    RUN_INFO["stopped_at"] = {"length": n, "role": role, "histories": nseq}
                    return failures, nseq, nticks
                nseq += 1
                a, psm = _node(role)
                tr = a.transport
                opened_by_valid_ce = False
                stops, dprs_seen, k = 0, 0, 0
                left_closed = False
                problem = None
                for ev in list(seq) + ["tick", "tick"]:
                    k += 1
                    state = psm.current_state
                    if not hasattr(state, "msg"):
                        state.msg = None               # run() itself assigns it; the clauses read it
                    if ev in msgs:
                        a._recv_messages.put(msgs[ev](k))
                    elif ev == "stop":
                        if a.state_is_active:
                            stops += 1
                        psm.close()
                    elif ev == "peer-disconnect":
                        if not isinstance(state, SM.Open) or a.transport is None:
                            break                      # outside Open: KF-C06-peer-gone, not exercised
                        a.transport._stop_threads = True
                    elif ev == "idle" and a.transport is not None:
                        a.transport.events = []
                        a.transport.tracking_events_count = 31
                    elif ev == "connect-nack" and a.transport is not None:
                        a.transport.connect_ok = False
                    c = tick.get(type(state))
                    head = a._recv_messages.st["items"][0] if a._recv_messages.st["items"] else None
                    nstreams = len(tr.streams)
                    ns = {"self": state}
                    spec._GHOST["log"] = []
                    old = _old_view(state)
                    try:
                        if c is not None and c.setup_spec is not None and a.transport is not None:
                            _call_spec(c.setup_spec, ns)
                        state.run()
                        nticks += 1
                    except BaseException as e:  # noqa
                        problem = "tick of %s raised %s" % (type(state).__name__, type(e).__name__)
                        break
                    if c is not None and a.transport is not None:
                        for nm, f in c.ensures.items():
                            try:
                                ok = bool(_call_spec(f, dict(ns, old=old)))
                            except BaseException as e:  # noqa
                                ok = False
                                nm = nm + " (clause raised %s)" % type(e).__name__
                            if not ok:
                                problem = "%s tick: clause %s" % (type(state).__name__, nm)
                                break
                        if problem:
                            break
                    # what was written on this tick
                    for s in tr.streams[nstreams:]:
                        for m in (B.DiameterMessage.load(s) if s else []):
                            code = int.from_bytes(m.header.command_code, "big")
                            if m.header.is_request() and code == 282:
                                dprs_seen += 1
                            if not m.header.is_request() and code in (257, 280, 282):
                                if head is None or m.header.hop_by_hop != head.header.hop_by_hop or \
                                        m.header.end_to_end != head.header.end_to_end or \
                                        m.header.command_code != head.header.command_code:
                                    problem = "answer %d does not echo the request consumed on this tick" % code
                    if problem:
                        break
                    if isinstance(state, (SM.Closed, SM.WaitInitiatorCEA)) and state.next_state == "Open":
                        opened_by_valid_ce = head is not None and int.from_bytes(head.header.command_code, "big") == 257 \
                            and b"peer.example" in head.dump()
                    try:
                        psm.current_state = psm.get_next_state(state.next_state)
                    except BaseException as e:  # noqa
                        problem = "get_next_state raised %s" % type(e).__name__
                        break
                    rep = psm.get_current_state()
                    if rep in ("I-Open", "R-Open") and not opened_by_valid_ce:
                        problem = "reported %s without a valid Capabilities-Exchange with the configured peer" % rep
                    if rep != "Closed":
                        left_closed = True
                    if rep == "Closed" and left_closed and not isinstance(state, SM.Closed) and not tr.closed:
                        problem = "Closed again but the transport was not released"
                    if dprs_seen > max(stops, 0) or dprs_seen > 1:
                        problem = "%d DPRs written for %d local stop(s)" % (dprs_seen, stops)
                    if problem:
                        break
                    if rep == "Closed" and left_closed and a.transport is None:
                        break                          # the connection is over (a restart builds a new association)
                if problem:
                    failures.append({"role": role, "events": list(seq), "problem": problem})
                    if len(failures) >= 8:
                        return failures, nseq, nticks
    return failures, nseq, nticks


@table("tick-histories", prop="C06")
def tick_histories():
    depth = 4 if os.environ.get("VERIF_TIER") == "thorough" else 3
    failures, nseq, nticks = run_histories(depth)
    return [("every-history-is-a-chain-of-contract-respecting-ticks", not failures and nticks > 0,
             {"depth": depth, "histories": nseq, "ticks": nticks, "enumeration_complete": RUN_INFO.get("complete"),
              "stopped_at": RUN_INFO.get("stopped_at"), "failing": failures[:6]})]


tick_histories.bounded = ("event sequences of length <= 3 (quick) / 4 (thorough) over 16 events, both roles, followed by two "
                          "plain ticks; native run of the real state classes with run-time evaluation of the tick contracts; "
                          "shortest histories first, stopped (and reported as incomplete) after a wall-clock budget")
