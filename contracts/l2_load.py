"""L2 -- DiameterAVP.load: the AVP stream parser (C03 termination + clean rejection, C02 inverse)."""
from pyvc.api import contract, T, Loop
from pyvc.spec import implies, be, unbe, lib_error, is_instance_of
import bromelia.base as B
from contracts.common import AVP_ELEM, cat, slen, MAX24


# ------------------------------------------------------------------ C03: any byte string
def load_inv_c03(stream, index):
    return 0 <= index


def load_variant(stream, index):
    return len(stream) - index


_LOAD_VARS = {"index": T.Int(), "avps": T.Seq(AVP_ELEM), "avp": T.NoneS, "boundary": T.Int(),
              "padding": T.Int(), "avp_header_length": T.Int(), "_avp_class": T.NoneS,
              "avp_object": T.NoneS}


@contract("bromelia.base.DiameterAVP.load", prop="C03", name="any-bytes")
class _LoadAnyBytes:
    """for EVERY byte string: the parser terminates (each iteration consumes at least 8 bytes, so
    at most len/8 + 1 iterations) and either returns or raises one of the library's error types"""
    args = {"stream": T.Bytes()}
    loops = {0: Loop(vars=_LOAD_VARS, inv=load_inv_c03, variant=load_variant, min_decrease=8)}
    at_calls = True
    returns = T.Seq(AVP_ELEM)
    raises = (B.AVPParsingError,) + tuple(
        __import__("contracts.l4_registry", fromlist=["CTOR_ERRORS"]).CTOR_ERRORS[:2]) + (
        __import__("contracts.l4_registry", fromlist=["CTOR_ERRORS"]).CTOR_ERRORS[3],)

    def ensures_returns_list(result):
        return isinstance(result, list)

    def exceptional(exc):
        return lib_error(exc)

    def control_never_raises(result):
        return False


# =========================================================================================
#  DiameterMessage.load -- the message splitter (C03: every byte string)
# =========================================================================================
from pyvc.seqs import ElemKind                                        # noqa: E402
from bromelia.exceptions import DiameterMessageError                  # noqa: E402

MSG_OPAQUE = ElemKind("msg", [("message", B.DiameterMessage, {})])   # list elements nobody inspects here


def mload_inv(stream, index):
    return 0 <= index


def mload_variant(stream, index):
    return len(stream) - index


_MLOAD_VARS = {"index": T.Int(), "msgs": T.Seq(MSG_OPAQUE), "header_stream": T.NoneS, "header": T.NoneS,
               "lower_limit": T.Int(), "upper_limit": T.Int(), "avp_stream": T.NoneS, "avps": T.NoneS,
               "msg": T.NoneS}


@contract("bromelia.base.DiameterMessage.load", prop="C03", name="any-bytes")
class _MLoadAnyBytes:
    """for EVERY byte string: the splitter terminates (each iteration consumes at least the 20 header
    bytes, so at most len/20 + 1 iterations, each running the AVP parser on a slice of the input) and
    either returns a list or raises one of the library's error types"""
    args = {"stream": T.Bytes()}
    loops = {0: Loop(vars=_MLOAD_VARS, inv=mload_inv, variant=mload_variant, min_decrease=20)}

    def ensures_returns_list(result):
        return isinstance(result, list)

    def exceptional(exc):
        return lib_error(exc)

    def control_never_raises(result):
        return False
