"""L2 -- DiameterAVP.load: the AVP stream parser (C03 termination + clean rejection, C02 inverse)."""
from pyvc.api import contract, T, Loop
from pyvc.spec import implies, be, unbe, lib_error, is_instance_of
import bromelia.base as B
from contracts.common import AVP_ELEM, cat, slen, MAX24


# ------------------------------------------------------------------ C03: any byte string
def load_inv_c03(stream, index):
    return 0 <= index


def load_variant(stream, index):
    return len(stream) - index


_LOAD_VARS = {"index": T.Int(), "avps": T.Seq(AVP_ELEM), "avp": T.NoneS, "boundary": T.Int(),
              "padding": T.Int(), "avp_header_length": T.Int(), "_avp_class": T.NoneS,
              "avp_object": T.NoneS}


@contract("bromelia.base.DiameterAVP.load", prop="C03", name="any-bytes")
class _LoadAnyBytes:
    """for EVERY byte string: the parser terminates (each iteration consumes at least 8 bytes, so
    at most len/8 + 1 iterations) and either returns or raises one of the library's error types"""
    args = {"stream": T.Bytes()}
    loops = {0: Loop(vars=_LOAD_VARS, inv=load_inv_c03, variant=load_variant, min_decrease=8)}
    at_calls = True
    returns = T.Seq(AVP_ELEM)
    raises = (B.AVPParsingError,) + tuple(
        __import__("contracts.l4_registry", fromlist=["CTOR_ERRORS"]).CTOR_ERRORS[:2]) + (
        __import__("contracts.l4_registry", fromlist=["CTOR_ERRORS"]).CTOR_ERRORS[3],)

    def ensures_returns_list(result):
        return isinstance(result, list)

    def exceptional(exc):
        return lib_error(exc)

    def control_never_raises(result):
        return False


# =========================================================================================
#  DiameterMessage.load -- the message splitter (C03: every byte string)
# =========================================================================================
from pyvc.seqs import ElemKind                                        # noqa: E402
from bromelia.exceptions import DiameterMessageError                  # noqa: E402

MSG_OPAQUE = ElemKind("msg", [("message", B.DiameterMessage, {})])   # list elements nobody inspects here


def mload_inv(stream, index):
    return 0 <= index


def mload_variant(stream, index):
    return len(stream) - index


_MLOAD_VARS = {"index": T.Int(), "msgs": T.Seq(MSG_OPAQUE), "header_stream": T.NoneS, "header": T.NoneS,
               "lower_limit": T.Int(), "upper_limit": T.Int(), "avp_stream": T.NoneS, "avps": T.NoneS,
               "msg": T.NoneS}


@contract("bromelia.base.DiameterMessage.load", prop="C03", name="any-bytes")
class _MLoadAnyBytes:
    """for EVERY byte string: the splitter terminates (each iteration consumes at least the 20 header
    bytes, so at most len/20 + 1 iterations, each running the AVP parser on a slice of the input) and
    either returns a list or raises one of the library's error types"""
    args = {"stream": T.Bytes()}
    loops = {0: Loop(vars=_MLOAD_VARS, inv=mload_inv, variant=mload_variant, min_decrease=20)}

    def ensures_returns_list(result):
        return isinstance(result, list)

    def exceptional(exc):
        return lib_error(exc)

    def control_never_raises(result):
        return False


# =========================================================================================
#  C02: DiameterAVP.load is the inverse of the RFC 6733 encoder on well-formed streams
# =========================================================================================
from pyvc.seqs import Field, fold                                     # noqa: E402
from pyvc.spec import ghost_get, ghost_set, seq_uncons, seq_snoc, seq_empty, use_lemma, unbe, proved, raised_in  # noqa: E402
from pyvc.api import lemma                                            # noqa: E402
from contracts.common import enc_avp, enc_of, avp_len, MAX24          # noqa: E402


def wire_avp_valid(v):
    """a conformant peer's AVP: V flag set exactly when a Vendor-ID is present, AVP Length < 2^24.
    Known finding KF-C02-flags is masked HERE: for (vendor, code) pairs the dictionary knows, the
    flags on the wire are the class's default flags (see default_flags_ok)."""
    hv = v._vendor_id is not None
    return ((unbe(v._flags) & 0x80 != 0) == hv) and avp_len(v._vendor_id, v._data) < MAX24 \
        and default_flags_ok(v)


def default_flags_ok(v):
    from contracts.l4_registry import flags_are_default
    return flags_are_default(v._code, v._vendor_id, v._flags)


WIRE = ElemKind("wire", [("avp", B.DiameterAVP, {
    "_code": Field(("bytesn", 4)), "_flags": Field(("bytesn", 1)),
    "_vendor_id": Field(("opt", Field(("bytesn", 4)))), "_data": Field(("bytes",)),
    "_padding": Field(("none",))})], valid=wire_avp_valid)


def enc_w(v):
    return enc_avp(v._code, v._flags, v._vendor_id, v._data)


catw = fold("catw", enc_w, "bytes")          # the wire: concatenated encodings of the peer's AVPs


@lemma("catw_len", prop="C02", over=WIRE)
def catw_len(s):
    """every encoded AVP occupies at least 8 bytes"""
    return len(catw(s)) >= 8 * len(s)


def c02_entry(_vs):
    return ghost_set("done", seq_empty(_vs)) and ghost_set("todo", _vs)


def inv_wire_split(stream, done, todo, _vs):
    return stream == catw(done) + catw(todo) and _vs == done + todo


def inv_index(index, done):
    return index == len(catw(done))


def inv_redump(avps, done):
    return cat(avps) == catw(done)


def inv_count(avps, done):
    return len(avps) == len(done)


c02_inv = [inv_wire_split, inv_index, inv_redump, inv_count]


def c02_hint(stream, index, todo, done):
    pair = seq_uncons(todo)
    v = pair[0]
    ghost_set("cur", v)
    ghost_set("todo", pair[1])
    # the wire at `index` is enc_w(v): name its fields one by one (each step is its own small VC)
    hl = 12 if v._vendor_id is not None else 8
    n = len(v._data)
    pad = (4 - n % 4) % 4
    ok = len(catw(todo)) >= 0           # re-mention catw(todo): it unfolds to enc_w(v) ++ catw(rest)
    ok = ok and proved(stream == catw(done) + enc_w(v) + catw(pair[1]), "wire-at-index")
    ok = ok and proved(len(enc_w(v)) == hl + n + pad, "enc-length")
    ok = ok and proved(stream[index:index + 4] == v._code, "code-slice")
    ok = ok and proved(stream[index + 4:index + 5] == v._flags, "flags-slice")
    ok = ok and proved(stream[index + 5:index + 8] == be(hl + n, 3), "length-slice")
    if v._vendor_id is not None:
        ok = ok and proved(stream[index + 8:index + 12] == v._vendor_id, "vendor-slice")
    ok = ok and proved(stream[index + hl:index + hl + n] == v._data, "data-slice")
    return ok


def c02_tail():
    return ghost_set("done", seq_snoc(ghost_get("done"), ghost_get("cur")))


@contract("bromelia.base.DiameterAVP.load", prop="C02", name="inverse")
class _LoadInverse:
    """for every sequence of AVPs a conformant peer may send (any code, vendor, M/P flags, data,
    known or unknown pairs), decoding their concatenated RFC 6733 encodings yields one AVP object per
    encoded AVP, in order, whose re-encoding reproduces the input bytes exactly"""
    args = {"stream": T.Bytes(), "_vs": T.Seq(WIRE)}
    loops = {0: Loop(vars=_LOAD_VARS, ghost={"done": T.Seq(WIRE), "todo": T.Seq(WIRE)},
                     inv=c02_inv, hint=c02_hint, tail=c02_tail, entry=c02_entry)}

    def requires(stream, _vs):
        return stream == catw(_vs)

    def ensures_reencodes_identically(stream, result):
        return cat(result) == stream

    def ensures_one_object_per_avp(result, _vs):
        return use_lemma(catw_len, ghost_get("todo")) and len(result) == len(_vs)

    def exceptional(exc):
        # data outside a dictionary class's domain is rejected by THAT CLASS's constructor (C10);
        # the parser itself never rejects a well-formed stream
        return lib_error(exc) and raised_in(exc, "__init__")

    def control_drops_one(result, _vs):
        return len(result) + 1 == len(_vs)


# =========================================================================================
#  C02: DiameterMessage.load is the inverse of the RFC 6733 MESSAGE encoder on well-formed streams
#       ("one or more concatenated messages ... exactly one message object per encoded message, in
#       order ... re-serialising each decoded message reproduces its original bytes")
# =========================================================================================
_LoadInverse.at_calls = True          # applied at a call site ONLY with caller-supplied ghost witnesses
_LoadInverse.accepts = staticmethod(lambda ctx, ns: False)
_LoadInverse.returns = T.Seq(AVP_ELEM)
_LoadInverse.raises = _LoadAnyBytes.raises
if _LoadInverse not in __import__("pyvc.api", fromlist=["REGISTRY"]).REGISTRY:      # pragma: no cover
    raise RuntimeError("registry")


class WireMsg(object):
    """ghost value: one message as a conformant peer put it on the wire (header fields + its AVPs)"""
    __slots__ = ("_version", "_flags", "_command_code", "_application_id", "_hop_by_hop", "_end_to_end", "_avps")


def wire_msg_valid(w):
    """Message Length (20 + the encoded AVPs) fits its 24-bit field"""
    return 20 + len(catw(w._avps)) < MAX24


WMSG = ElemKind("wmsg", [("m", WireMsg, {
    "_version": Field(("bytesn", 1)), "_flags": Field(("bytesn", 1)), "_command_code": Field(("bytesn", 3)),
    "_application_id": Field(("bytesn", 4)), "_hop_by_hop": Field(("bytesn", 4)),
    "_end_to_end": Field(("bytesn", 4)), "_avps": Field(("seq", WIRE))})], valid=wire_msg_valid)


def hdr_w(w):
    """RFC 6733 section 3 header of wire message w; Message Length = 20 + size of its encoded AVPs"""
    from contracts.common import enc_hdr
    return enc_hdr(w._version, be(20 + len(catw(w._avps)), 3), w._flags, w._command_code, w._application_id,
                   w._hop_by_hop, w._end_to_end)


def enc_wm(w):
    return hdr_w(w) + catw(w._avps)


def spec_dump(m):
    """reference serialisation of a decoded message OBJECT: its header fields as stored, then the
    reference encodings of its AVPs in list order"""
    from contracts.common import enc_hdr
    h = m._header
    return enc_hdr(h._version, h._length, h._flags, h._command_code, h._application_id, h._hop_by_hop,
                   h._end_to_end) + cat(m._avps)


catm = fold("catm", enc_wm, "bytes")          # the wire: concatenated encodings of the peer's messages
dumps = fold("dumps", spec_dump, "bytes")     # concatenated reference serialisations of message objects


@lemma("catm_len", prop="C02", over=WMSG)
def catm_len(s):
    """every encoded message occupies at least its 20 header bytes"""
    return len(catm(s)) >= 20 * len(s)


def m02_entry(_ws):
    return ghost_set("done", seq_empty(_ws)) and ghost_set("todo", _ws)


def minv_wire_split(stream, done, todo, _ws):
    return stream == catm(done) + catm(todo) and _ws == done + todo


def minv_index(index, done):
    return index == len(catm(done))


def minv_redump(msgs, done):
    return dumps(msgs) == catm(done)


def minv_count(msgs, done):
    return len(msgs) == len(done)


def m02_hint(stream, index, todo, done):
    pair = seq_uncons(todo)
    w = pair[0]
    ghost_set("cur", w)
    ghost_set("todo", pair[1])
    body = catw(w._avps)
    n = 20 + len(body)
    ok = len(catm(todo)) >= 0            # re-mention catm(todo): it unfolds to enc_wm(w) ++ catm(rest)
    ok = ok and proved(stream == catm(done) + enc_wm(w) + catm(pair[1]), "wire-at-index")
    ok = ok and proved(len(enc_wm(w)) == n, "message-size")
    ok = ok and proved(stream[index:index + 20] == hdr_w(w), "header-slice")
    ok = ok and proved(stream[index + 1:index + 4] == be(n, 3), "length-slice")
    ok = ok and proved(stream[index + 20:index + n] == body, "avp-slice")
    return ok


def m02_tail(msg):
    w = ghost_get("cur")
    h = msg._header
    # THE per-message statement, proved for the k-th iteration for arbitrary k: the message object
    # appended by this iteration carries the header fields of the k-th wire message and re-serialises
    # to exactly that message's bytes (so with `len(msgs) == len(done)` and append-only `msgs`, result[k]
    # corresponds to the k-th encoded message)
    ok = proved(h._version == w._version and h._flags == w._flags and h._command_code == w._command_code
                and h._application_id == w._application_id and h._hop_by_hop == w._hop_by_hop
                and h._end_to_end == w._end_to_end and unbe(h._length) == 20 + len(catw(w._avps)),
                "kth-message-carries-the-kth-wire-header")
    ok = ok and proved(spec_dump(msg) == enc_wm(w), "kth-message-reserialises-to-its-wire-bytes")
    return ok and ghost_set("done", seq_snoc(ghost_get("done"), w))


def avps_of_current_wire_message():
    return {"_vs": ghost_get("cur")._avps}


@contract("bromelia.base.DiameterMessage.load", prop="C02", name="inverse", also=("C04",))
class _MLoadInverse:
    """for every sequence of messages a conformant peer may send (any header fields and command flags,
    any number of AVPs each, any number of messages), decoding their concatenated RFC 6733 encodings
    yields one message object per encoded message, in order, each carrying that message's header
    fields and re-serialising to exactly its bytes"""
    args = {"stream": T.Bytes(), "_ws": T.Seq(WMSG)}
    loops = {0: Loop(vars=_MLOAD_VARS, ghost={"done": T.Seq(WMSG), "todo": T.Seq(WMSG)},
                     inv=[minv_wire_split, minv_index, minv_redump, minv_count],
                     hint=m02_hint, tail=m02_tail, entry=m02_entry)}
    call_ghosts = {"DiameterAVP.load": ("inverse", avps_of_current_wire_message)}

    def requires(stream, _ws):
        return stream == catm(_ws)

    def ensures_reserialises_identically(stream, result):
        return dumps(result) == stream

    def ensures_one_object_per_message(result, _ws):
        return use_lemma(catm_len, ghost_get("todo")) and len(result) == len(_ws)

    def exceptional(exc):
        # AVP data outside a dictionary class's domain is rejected by that class inside the AVP
        # parser (C10); the splitter itself never rejects a well-formed stream
        return lib_error(exc) and raised_in(exc, "DiameterAVP.load")

    def control_drops_one(result, _ws):
        return len(result) + 1 == len(_ws)

    def control_empty_result(result):
        return len(result) == 0
