"""C14 -- a waiting sender gets its own answer, matched by Hop-by-Hop id, and always wakes.

What contracts CAN decide here (one thread of control at a time, each side of the rendezvous under its
own contract; the composition over interleavings is not machine-checked, see DESIGN.md):

  registry    insert / is / get / remove on Worker.pending_answers behave as a map keyed by the request's
              Hop-by-Hop identifier (two other waiters with arbitrary distinct identifiers present:
              bounded in the number of OTHER waiters, not in the identifier values);
  dispatch    handler_pending_answers(answer): the waiter registered under answer.hop_by_hop -- and only
              that one -- gets the answer object and is woken (its recv_event is set BEFORE the dispatcher
              can wait for anything), then leaves the registry; an answer nobody waits for changes nothing;
  caller      Bromelia.send_message(request): the waiter is in the registry BEFORE the request is handed
              to the send queue (ghost event log order), the call then waits only on its own recv_event,
              and once woken returns exactly the message stored in its waiter;
  rendezvous  PendingAnswer.wait returns at once when the answer has already arrived (no lost wake-up:
              the flag is level-triggered), consumes the flag and releases the dispatcher; notify sets the
              flag first.
"""
from pyvc.api import contract, T
from pyvc.spec import implies, ghost_get, ghost_set, is_instance_of, event_log
import bromelia.base as B
import bromelia.bromelia as BB
from contracts.common import header_shape

APP = b"\x01\x00\x00\x23"


def _msg(flags, cls=B.DiameterMessage, **h):
    return T.Obj(cls, idict={"_header": header_shape(_flags=flags, _application_id=T.Const(APP), **h),
                             "_avps": T.ListOf(), "_loaded": T.Const(False)})


def _waiter(recv_flag=False, stop_flag=False):
    return T.Obj(BB.PendingAnswer, idict={"recv_event": T.Sync("event", flag=recv_flag),
                                          "stop_event": T.Sync("event", flag=stop_flag),
                                          "msg": _msg(T.Const(b"\x80"), cls=B.DiameterRequest)})


def _worker():
    return T.Obj(BB.Worker, idict={"name": T.Const("w"), "_name": T.Const("w"), "pending_answers": T.DictOf2({}),
                                   "is_open": T.Sync("event", flag=True),
                                   "send_lock": T.Sync("lock"), "send_queue": T.Sync("queue"),
                                   "send_event": T.Sync("event")})


def _bromelia():
    return T.Obj(BB.Bromelia, idict={
        "answer_threshold": T.Sync("barrier"), "send_threshold": T.Sync("barrier"),
        "testing_answer": T.NoneS, "associations": T.DictOf2({APP: _worker()})})


def hbh(m):
    return m._header._hop_by_hop


def register(worker, w1, w2):
    worker.pending_answers = {hbh(w1.msg): w1, hbh(w2.msg): w2}
    return True


def distinct(w1, w2):
    return hbh(w1.msg) != hbh(w2.msg)


def snap_waiters(w1, w2):
    return ghost_set("m1", w1.msg) and ghost_set("m2", w2.msg)


# ------------------------------------------------------------------ dispatch side
def do_dispatch(self, msg, w1, w2):
    worker = self.associations[APP]
    register(worker, w1, w2)
    return self.handler_pending_answers(msg)


@contract("bromelia.bromelia.Bromelia.handler_pending_answers", prop="C14", name="dispatch")
class _Dispatch:
    """two callers wait (any two distinct identifiers); an answer with ANY identifier arrives"""
    args = {"self": _bromelia(), "msg": _msg(T.Const(b"\x00"), cls=B.DiameterAnswer), "w1": _waiter(), "w2": _waiter()}
    call = do_dispatch
    snapshot_spec = snap_waiters

    def requires(w1, w2):
        return distinct(w1, w2)

    def ensures_unmatched_answer_changes_nothing(self, msg, w1, w2, old):
        # (returns normally only when nobody is waiting for this identifier: otherwise the dispatcher waits
        # for the woken caller, see when_blocked)
        reg = self.associations[APP].pending_answers
        return hbh(msg) != hbh(ghost_get("m1")) and hbh(msg) != hbh(ghost_get("m2")) \
            and len(reg) == 2 and w1.msg is ghost_get("m1") and w2.msg is ghost_get("m2") \
            and w1.recv_event.st["flag"] == False and w2.recv_event.st["flag"] == False

    def when_blocked(self, msg, w1, w2, old):
        # the dispatcher waits for the rendezvous: exactly the matching waiter has the answer and is woken
        one = hbh(msg) == hbh(ghost_get("m1")) and w1.msg is msg and w1.recv_event.st["flag"] == True \
            and w2.msg is ghost_get("m2") and w2.recv_event.st["flag"] == False
        two = hbh(msg) == hbh(ghost_get("m2")) and w2.msg is msg and w2.recv_event.st["flag"] == True \
            and w1.msg is ghost_get("m1") and w1.recv_event.st["flag"] == False
        return one or two

    def exceptional(exc):
        return False


def do_dispatch_released(self, msg, w1, w2):
    return do_dispatch(self, msg, w1, w2)


@contract("bromelia.bromelia.Bromelia.handler_pending_answers", prop="C14", name="dispatch-completes")
class _DispatchCompletes:
    """same, with the woken callers releasing the dispatcher at once (stop_event already set): the matched
    waiter leaves the registry, the other stays"""
    args = {"self": _bromelia(), "msg": _msg(T.Const(b"\x00"), cls=B.DiameterAnswer),
            "w1": _waiter(stop_flag=True), "w2": _waiter(stop_flag=True)}
    call = do_dispatch_released
    snapshot_spec = snap_waiters

    def requires(w1, w2):
        return distinct(w1, w2)

    def ensures_only_the_matching_waiter(self, msg, w1, w2, old):
        reg = self.associations[APP].pending_answers
        if hbh(msg) == hbh(ghost_get("m1")):
            return w1.msg is msg and w1.recv_event.st["flag"] == True and w2.msg is ghost_get("m2") \
                and w2.recv_event.st["flag"] == False and len(reg) == 1 and reg[hbh(w2.msg)] is w2
        if hbh(msg) == hbh(ghost_get("m2")):
            return w2.msg is msg and w2.recv_event.st["flag"] == True and w1.msg is ghost_get("m1") \
                and w1.recv_event.st["flag"] == False and len(reg) == 1 and reg[hbh(w1.msg)] is w1
        return len(reg) == 2 and w1.msg is ghost_get("m1") and w2.msg is ghost_get("m2") \
            and w1.recv_event.st["flag"] == False and w2.recv_event.st["flag"] == False

    def exceptional(exc):
        return False

    def control_wakes_everybody(w1, w2):
        return w1.recv_event.st["flag"] == True and w2.recv_event.st["flag"] == True


# ------------------------------------------------------------------ rendezvous
@contract("bromelia.bromelia.PendingAnswer.wait", prop="C14", name="answer-already-there")
class _WaitArrived:
    """no lost wake-up: an answer that arrived before the caller started waiting is seen at once"""
    args = {"self": _waiter(recv_flag=True)}

    def ensures_returns_consumes_and_releases(self):
        return self.recv_event.st["flag"] == False and self.stop_event.st["flag"] == True


@contract("bromelia.bromelia.PendingAnswer.wait", prop="C14", name="no-answer-yet")
class _WaitBlocks:
    args = {"self": _waiter(recv_flag=False)}

    def ensures_never_returns_without_an_answer(self):
        return False

    def when_blocked(self, old):
        return self.recv_event.st["flag"] == False and self.stop_event.st["flag"] == False


@contract("bromelia.bromelia.PendingAnswer.notify", prop="C14", name="_")
class _Notify:
    args = {"self": _waiter(stop_flag=T.Bool())}

    def ensures_woken(self):
        return self.recv_event.st["flag"] == True

    def when_blocked(self):
        return self.recv_event.st["flag"] == True


# ------------------------------------------------------------------ caller side
def outgoing_entry(self, msg):
    return ("queued", msg)


def insert_entry(self, p_answer):
    return ("registered", p_answer.msg._header._hop_by_hop, p_answer)


def _queue_effect(ctx, ns):
    from pyvc.extmodels import sync_method
    w = ns["self"]
    sync_method(ctx, w.idict["send_lock"], "acquire", [], {})
    sync_method(ctx, w.idict["send_queue"], "put", [ns["msg"]], {})
    sync_method(ctx, w.idict["send_event"], "set", [], {})
    return None


def snap_q(self):
    return ghost_set("wq0", list(self.send_queue.st["items"]))


@contract("bromelia.bromelia.Worker.set_outgoing_message", prop="C14", name="_")
class _SetOutgoing:
    args = {"self": _worker(), "msg": _msg(T.Bytes(1))}
    at_calls = True
    log_entry = outgoing_entry
    effect = _queue_effect
    check_effect = True
    snapshot_spec = snap_q

    def ensures_queued(self, msg):
        return self.send_queue.st["items"] == ghost_get("wq0") + [msg] and self.send_event.st["flag"] == True


def _insert_effect(ctx, ns):
    w, p = ns["self"], ns["p_answer"]
    ctx.dict_sym_method(w.idict["pending_answers"], "update",
                        [{p.idict["msg"].idict["_header"].slots["_hop_by_hop"]: p}], {})
    return None


@contract("bromelia.bromelia.Worker.insert_pending_answer", prop="C14", name="at-call")
class _InsertAtCall:
    args = {"self": _worker(), "p_answer": _waiter()}
    at_calls = True
    log_entry = insert_entry
    effect = _insert_effect
    check_effect = True

    def ensures_registered(self, p_answer):
        return self.pending_answers[hbh(p_answer.msg)] is p_answer


def do_insert(self, p_answer, w1):
    self.pending_answers = {hbh(w1.msg): w1}
    return self.insert_pending_answer(p_answer)


@contract("bromelia.bromelia.Worker.insert_pending_answer", prop="C14", name="map")
class _Insert:
    args = {"self": _worker(), "p_answer": _waiter(), "w1": _waiter()}
    call = do_insert

    def requires(p_answer, w1):
        return distinct(p_answer, w1)

    def ensures_registered_under_its_identifier(self, p_answer, w1):
        reg = self.pending_answers
        return len(reg) == 2 and reg[hbh(p_answer.msg)] is p_answer and reg[hbh(w1.msg)] is w1 \
            and self.is_pending_answer(p_answer.msg) and self.get_pending_answer(hbh(p_answer.msg)) is p_answer


def do_send(self, msg):
    return self.send_message(msg)


@contract("bromelia.bromelia.Bromelia.send_message", prop="C14", name="request")
class _SendRequest:
    """the caller side: register, then queue, then wait on the own waiter only"""
    args = {"self": _bromelia(), "msg": _msg(T.Const(b"\x80"), cls=B.DiameterRequest)}
    call = do_send

    def ensures_never_returns_without_an_answer(self):
        return False

    def when_blocked(self, msg):
        log = event_log()
        w = self.associations[APP]
        reg = w.pending_answers
        return [e[0] for e in log] == ["registered", "queued"] and log[1][1] is msg \
            and len(reg) == 1 and reg[hbh(msg)].msg is msg and reg[hbh(msg)] is log[0][2] \
            and reg[hbh(msg)].recv_event.st["flag"] == False \
            and w.send_queue.st["items"] == [msg]

    def exceptional(exc):
        return False


# ------------------------------------------------------------------ every waiter has its own events
def two_waiters(m1, m2):
    return [BB.PendingAnswer(m1), BB.PendingAnswer(m2)]


@contract("bromelia.bromelia.PendingAnswer", prop="C14", name="own-events")
class _OwnEvents:
    """two callers never share a wake-up flag: waking one cannot wake the other"""
    args = {"m1": _msg(T.Const(b"\x80"), cls=B.DiameterRequest), "m2": _msg(T.Const(b"\x80"), cls=B.DiameterRequest)}
    call = two_waiters

    def ensures_distinct_unset_events(m1, m2, result):
        a, b = result[0], result[1]
        return a.recv_event is not b.recv_event and a.stop_event is not b.stop_event \
            and a.recv_event is not a.stop_event and b.recv_event is not b.stop_event \
            and not a.recv_event.is_set() and not a.stop_event.is_set() \
            and not b.recv_event.is_set() and not b.stop_event.is_set() \
            and a.msg is m1 and b.msg is m2


# ------------------------------------------------------------------ every connection worker has its own registry
from pyvc.api import table                                            # noqa: E402


@table("registry-per-worker", prop="C14")
def registry_per_worker():
    """Hop-by-Hop identifiers are per connection: two connection workers (two interfaces of one application)
    may each have a request in flight under the SAME identifier.  The real Worker objects, built with a
    thread-based stand-in for the multiprocessing manager, each keep their own registry: registering, looking
    up and removing a waiter on one never shows on the other (a registry shared through the class would hand
    one caller the other interface's answer and leave the overwritten caller asleep)."""
    import queue
    import threading
    import types
    from bromelia.constants import DIAMETER_APPLICATION_S6a, DIAMETER_APPLICATION_SWx

    class Manager(object):
        Event, Lock, Queue = staticmethod(threading.Event), staticmethod(threading.Lock), staticmethod(queue.Queue)

    def app(app_id):
        return types.SimpleNamespace(config={"APPLICATIONS": [{"app_id": app_id, "vendor_id": b"\x00\x00\x28\xaf"}]})

    bad = []
    try:
        w1, w2 = BB.Worker(app(DIAMETER_APPLICATION_S6a), Manager()), BB.Worker(app(DIAMETER_APPLICATION_SWx), Manager())
        h = B.DiameterHeader(hop_by_hop=b"\x00\x00\x00\x07", end_to_end=b"\x00\x00\x00\x01")
        p1 = BB.PendingAnswer(B.DiameterRequest(header=h))
        p2 = BB.PendingAnswer(B.DiameterRequest(header=h))
        w1.insert_pending_answer(p1)
        if w2.is_pending_answer(p2.msg):
            bad.append("a waiter registered on worker 1 is visible on worker 2")
        w2.insert_pending_answer(p2)
        if w1.get_pending_answer(h.hop_by_hop) is not p1 or w2.get_pending_answer(h.hop_by_hop) is not p2:
            bad.append("same Hop-by-Hop on two workers: one registration replaced the other")
        p1.recv_event.set()                      # let remove_pending_answer's notify() return at once
        p1.stop_event.set()
        t = threading.Thread(target=w1.remove_pending_answer, args=(p1,), daemon=True)
        t.start()
        t.join(5)
        if t.is_alive():
            bad.append("remove_pending_answer did not return")
        elif not w2.is_pending_answer(p2.msg) or w1.is_pending_answer(p1.msg):
            bad.append("removing worker 1's waiter changed worker 2's registry (or left its own entry)")
    except BaseException as e:  # noqa
        bad.append("raised %s: %s" % (type(e).__name__, e))
    return [("each-worker-has-its-own-registry", not bad, {"checked": 4, "failing": bad})]


registry_per_worker.bounded = "two real Worker objects (thread-based manager stand-in), one shared Hop-by-Hop identifier; native"


# ------------------------------------------------------------------ the dispatcher loop never waits for a handler
#  "A caller whose answer has arrived is always woken" needs the dispatcher (Bromelia.main) to keep polling: the
#  answer of a caller that waits inside a route function is delivered BY that loop.  One iteration, from any state
#  of the bookkeeping list (0..2 handler threads, each finished or still running -- possibly for ever): the loop
#  body never blocks, i.e. it only ever joins threads that have finished.
from pyvc.api import Loop                                             # noqa: E402
from contracts.stubs import FakeThread                                # noqa: E402


def _thread_shape():
    return T.Obj(FakeThread, idict={"done": T.Sync("event", flag=T.Bool())})


@contract("bromelia.bromelia.Bromelia.create_message_thread", prop="C14", name="summary", also=("C13",))
class _SpawnSummary:
    args = {"self": T.Obj(BB.Bromelia, idict={}), "msg": _msg(T.Bytes(1))}
    at_calls = True
    returns = _thread_shape()
    proof = "table"
    assumes = ("Bromelia.create_message_thread starts one handler thread for the message and returns it; the thread "
               "may still be running (for any length of time) when the dispatcher looks at it",)


def main_inv():
    return True


def _main_contract(k):
    @contract("bromelia.bromelia.Bromelia.main", prop="C14", name="dispatcher-iteration-%d-threads" % k, also=("C13",))
    class _Main:
        """one iteration of the dispatcher loop from ANY bookkeeping state with k handler threads (each finished or
        still running), with or without a new message: it never blocks"""
        args = {"self": T.Obj(BB.Bromelia, idict={
            "recv_queues": T.ListOf(T.ListOf(T.OneOf(T.Sync("queue"), T.Sync("queue", items=[_msg(T.Bytes(1))], extra=True)),
                                             T.Sync("lock")))})}
        loops = {0: Loop(vars={"thrds": T.ListOf(*[_thread_shape() for _ in range(k)]), "msg": T.NoneS, "thrd": T.NoneS},
                         inv=main_inv)}
        bounded = "%d handler threads in the dispatcher's list (each finished or running); one worker queue" % k
        samples = 0

        def exceptional(exc):
            return False
    return _Main


for _k in (0, 1, 2):
    _main_contract(_k)
