"""C15 -- request identifiers are never reused within a process.

Representation invariant over the whole creation history: every identifier handed out so far is in the
process-wide registry and nothing ever leaves the registry.  Then "not in registry" at issue time
means "different from every identifier issued earlier".  The random source is havoc'd: os.urandom
returns ANY 4 bytes on every call (repeats included), so the result holds for every source.
Sequential histories only; the check-then-append is not atomic (no lock exists) -- see DESIGN.md.
"""
from pyvc.api import contract, T, Loop
from pyvc.spec import implies, ghost_get, ghost_set
import bromelia.base as B
from contracts.common import header_shape, AVP_ELEM

HBH = (B.DiameterRequest, "hop_by_hop_identifiers")
E2E = (B.DiameterRequest, "end_to_end_identifiers")


def snap_regs():
    return ghost_set("hbh0", B.DiameterRequest.hop_by_hop_identifiers.copy()) and \
        ghost_set("e2e0", B.DiameterRequest.end_to_end_identifiers.copy())


def hbh_loop_inv():
    return B.DiameterRequest.hop_by_hop_identifiers == ghost_get("hbh0") and \
        B.DiameterRequest.end_to_end_identifiers == ghost_get("e2e0")


def _request_self():
    return T.Obj(B.DiameterRequest, idict={})


@contract("bromelia.base.DiameterRequest._DiameterRequest__set_hop_by_hop_identifier", prop="C15", name="_")
class _SetHbh:
    """draw-until-unused: the result is 4 bytes not in the registry before the call, and the registry
    afterwards is the old one with exactly that value appended (nothing removed, nothing else added)"""
    args = {"self": _request_self()}
    state = {HBH: T.BytesList(), E2E: T.BytesList()}
    setup_spec = snap_regs
    loops = {0: Loop(vars={"random_identifier": T.Bytes(4)}, inv=hbh_loop_inv)}
    at_calls = True
    returns = T.Bytes(4)

    def ensures_fresh(result, old):
        return len(result) == 4 and result not in ghost_get("hbh0")

    def ensures_registry_grows_by_exactly_it(result):
        return B.DiameterRequest.hop_by_hop_identifiers == ghost_get("hbh0") + [result]

    def ensures_other_registry_untouched():
        return B.DiameterRequest.end_to_end_identifiers == ghost_get("e2e0")

    def control_may_reuse(result):
        return result in ghost_get("hbh0")


@contract("bromelia.base.DiameterRequest._DiameterRequest__set_end_to_end_identifier", prop="C15", name="_")
class _SetE2e:
    args = {"self": _request_self()}
    state = {HBH: T.BytesList(), E2E: T.BytesList()}
    setup_spec = snap_regs
    loops = {0: Loop(vars={"random_identifier": T.Bytes(4)}, inv=hbh_loop_inv)}
    at_calls = True
    returns = T.Bytes(4)

    def ensures_fresh(result):
        return len(result) == 4 and result not in ghost_get("e2e0")

    def ensures_registry_grows_by_exactly_it(result):
        return B.DiameterRequest.end_to_end_identifiers == ghost_get("e2e0") + [result]

    def ensures_other_registry_untouched():
        return B.DiameterRequest.hop_by_hop_identifiers == ghost_get("hbh0")


@contract("bromelia.base.DiameterRequest.__init__", prop="C15", name="no-header")
class _RequestNoHeader:
    """a request created without an explicit header carries two identifiers that were in neither
    registry before, and both registries grow by exactly those"""
    args = {"self": _request_self(), "version": T.Const(b"\x01"), "command_code": T.Int(lo=0, hi=16777215),
            "application_id": T.Int(lo=0, hi=4294967295)}
    state = {HBH: T.BytesList(), E2E: T.BytesList()}
    setup_spec = snap_regs

    def ensures_fresh_identifiers(self):
        h = self._header
        return h._hop_by_hop not in ghost_get("hbh0") and h._end_to_end not in ghost_get("e2e0") \
            and len(h._hop_by_hop) == 4 and len(h._end_to_end) == 4

    def ensures_recorded(self):
        return B.DiameterRequest.hop_by_hop_identifiers == ghost_get("hbh0") + [self._header._hop_by_hop] and \
            B.DiameterRequest.end_to_end_identifiers == ghost_get("e2e0") + [self._header._end_to_end]


@contract("bromelia.base.DiameterRequest.__init__", prop="C15", name="explicit-header")
class _RequestWithHeader:
    """a request built from an explicit header copies its identifiers and neither consumes nor alters
    the registries"""
    args = {"self": _request_self(), "version": T.Const(b"\x01"), "command_code": T.Const(0),
            "application_id": T.Int(lo=0, hi=4294967295),
            # DiameterHeader accepts None for either identifier (it then serialises without that field): such a
            # header is still "an explicit header" -- nothing may be drawn for it
            "header": header_shape(_flags=T.Const(b"\x00"), _hop_by_hop=T.OneOf(T.Bytes(4), T.NoneS),
                                   _end_to_end=T.OneOf(T.Bytes(4), T.NoneS))}
    state = {HBH: T.BytesList(), E2E: T.BytesList()}
    setup_spec = snap_regs

    def ensures_registries_untouched():
        return B.DiameterRequest.hop_by_hop_identifiers == ghost_get("hbh0") and \
            B.DiameterRequest.end_to_end_identifiers == ghost_get("e2e0")

    def ensures_identifiers_copied(self, header):
        return self._header._hop_by_hop == header._hop_by_hop and self._header._end_to_end == header._end_to_end

    def control_consumes(self):
        return len(B.DiameterRequest.hop_by_hop_identifiers) == len(ghost_get("hbh0")) + 1


def _answer_contract(with_header):
    @contract("bromelia.base.DiameterAnswer.__init__", prop="C15",
              name="explicit-header" if with_header else "no-header")
    class _A:
        """answers never consume or alter identifiers"""
        args = {"self": T.Obj(B.DiameterAnswer, idict={}), "version": T.Const(b"\x01"),
                "command_code": T.Int(lo=0, hi=16777215), "application_id": T.Int(lo=0, hi=4294967295),
                "header": header_shape(_flags=T.Const(b"\x00")) if with_header else T.NoneS}
        state = {HBH: T.BytesList(), E2E: T.BytesList()}
        setup_spec = snap_regs

        def ensures_registries_untouched():
            return B.DiameterRequest.hop_by_hop_identifiers == ghost_get("hbh0") and \
                B.DiameterRequest.end_to_end_identifiers == ghost_get("e2e0")
    return _A


_answer_contract(True)
_answer_contract(False)


# ------------------------------------------------------------------ other threads creating requests meanwhile
#  The statement's concurrent clause ("requests created concurrently from several threads are pairwise distinct")
#  is NOT decided in general: membership test and append are two steps with no lock.  What IS decided here is the
#  coarser interleaving in which other threads complete any number of request creations while this thread is
#  inside os.urandom (the only call in the loop that leaves the interpreter's critical path): the identifier
#  finally issued must be absent from the registry AS IT IS THEN, i.e. the code must test against the live
#  registry, not against something it read before drawing.
from pyvc.spec import any_values                                      # noqa: E402


def others_register_identifiers():
    grown = B.DiameterRequest.hop_by_hop_identifiers + any_values("hbh-by-other-threads")
    B.DiameterRequest.hop_by_hop_identifiers = grown
    return ghost_set("hbh_live", grown.copy())


def live_inv():
    return True


@contract("bromelia.base.DiameterRequest._DiameterRequest__set_hop_by_hop_identifier", prop="C15",
          name="others-draw-meanwhile")
class _SetHbhConcurrent:
    """with other threads registering arbitrary identifiers during every os.urandom call: the identifier issued is
    not among those registered up to the moment it is appended, and it is appended right behind them"""
    args = {"self": _request_self()}
    state = {HBH: T.BytesList(), E2E: T.BytesList()}
    setup_spec = snap_regs
    # the registry is arbitrary at the head of every iteration (earlier iterations let other threads add to it)
    loops = {0: Loop(vars={"random_identifier": T.Bytes(4)}, inv=live_inv, state={HBH: T.BytesList()})}
    samples = 0          # the interference is not re-enacted natively
    externals_interference = {"os.urandom": others_register_identifiers}

    def ensures_fresh_against_the_live_registry(result):
        live = ghost_get("hbh_live")
        return len(result) == 4 and result not in live and \
            B.DiameterRequest.hop_by_hop_identifiers == live + [result]
