"""L2 -- DiameterAVP: setters, derived length/padding, dump (C01 encoder core).

Receiver shapes: exact DiameterAVP and the schematic dictionary-subclass shape (common.py).
"""
from pyvc.api import contract, T
from pyvc.spec import implies, be, unbe, zeros, raw, slot, lib_error, is_instance_of
import bromelia.base as B
from bromelia.exceptions import AVPAttributeValueError
from contracts.common import (enc_avp, enc_of, avp_len, avp_plen, data_of, view_code, view_vendor,
                              generic_avp_shape, dict_avp_shape, any_avp_shape, ANY_VALUE, MAX24, stale_padding)


def small_enough(self):
    return avp_len(view_vendor(self), data_of(self)) < MAX24


@contract("bromelia.base.DiameterAVP.length.fget", prop="C01", name="_")
class _Length:
    """AVP Length = header (8, or 12 with Vendor-ID) + data length, never the padding"""
    args = {"self": any_avp_shape(padding=stale_padding())}
    at_calls = True
    returns = T.Bytes(3)
    requires = small_enough

    def ensures_header_plus_data(self, result):
        return result == be(avp_len(view_vendor(self), data_of(self)), 3)

    def control_includes_padding(self, result):
        return result == be(avp_plen(view_vendor(self), data_of(self)), 3)


def _pad_residue(ctx, ns):
    """(aligned?, 4 - len % 4 as a value): one two-way branch on the real condition, no split by residue"""
    import ast as _ast
    d = ctx.call_function(data_of, [ns["self"]], {})
    n = ctx.length_of(d)
    if isinstance(n, int):
        return (n % 4 == 0), 4 - n % 4
    r = ctx.binop(_ast.Mod, n, 4)
    aligned = ctx.truth(ctx.compare("==", r, 0))
    return aligned, ctx.binop(_ast.Sub, 4, r)


def _padding_effect(ctx, ns):
    aligned, k = _pad_residue(ctx, ns)
    if aligned:
        return None
    return ctx.call_function(zeros, [k], {})


def _padding_length_effect(ctx, ns):
    aligned, k = _pad_residue(ctx, ns)
    return None if aligned else k


@contract("bromelia.base.DiameterAVP.padding.fget", prop="C01", name="_")
class _Padding:
    """zero bytes up to the next 4-byte boundary; None when already aligned"""
    args = {"self": any_avp_shape(padding=stale_padding())}
    at_calls = True
    effect = _padding_effect
    check_effect = True

    def ensures_zero_fill(self, result):
        n = len(data_of(self))
        return implies(n % 4 == 0, result is None) and \
            implies(n % 4 != 0, result is not None and result == zeros(4 - n % 4))

    def control_always_some(self, result):
        return result is not None


@contract("bromelia.base.DiameterAVP.dump", prop="C01", name="_")
class _Dump:
    """dump() is exactly the RFC 6733 encoding of (code, flags, vendor?, data)"""
    args = {"self": any_avp_shape(padding=stale_padding())}
    at_calls = True
    returns = T.Bytes()
    requires = small_enough

    def ensures_rfc6733(self, result):
        return result == enc_of(self)

    def ensures_aligned(self, result):
        return len(result) % 4 == 0 and len(result) == avp_plen(view_vendor(self), data_of(self))

    def ensures_frame(self, old):
        return data_of(self) == data_of(old.self) and self._flags == old.self._flags

    def control_vendor_always(self, result):
        # wrong on purpose: claims a Vendor-ID field is always emitted
        return len(result) == 12 + len(data_of(self)) + (4 - len(data_of(self)) % 4) % 4


@contract("bromelia.base.DiameterAVP.get_length", prop="C01", name="_", also=("C12",))
class _GetLength:
    args = {"self": any_avp_shape(padding=stale_padding())}
    at_calls = True
    returns = T.Int()
    requires = small_enough

    def ensures_value(self, result):
        return result == avp_len(view_vendor(self), data_of(self))


@contract("bromelia.base.DiameterAVP.get_padding_length", prop="C01", name="_", also=("C12",))
class _GetPaddingLength:
    args = {"self": any_avp_shape(padding=stale_padding())}
    at_calls = True
    effect = _padding_length_effect
    check_effect = True

    def ensures_value(self, result):
        n = len(data_of(self))
        return implies(n % 4 == 0, result is None) and implies(n % 4 != 0, result == 4 - n % 4)


# ------------------------------------------------------------------------------ setters
def _setter(field, width, none_ok):
    target = "bromelia.base.DiameterAVP.%s.fset" % field
    hi = 256 ** width - 1

    @contract(target, prop="C01", name="_")
    class _S:
        """width-forcing setter: in-range int -> big-endian, bytes of the width -> as is,
        anything else is rejected with the library's AVP error (None accepted where the field is optional)"""
        args = {"self": generic_avp_shape(), "value": ANY_VALUE()}

        if field == "code":
            def ensures_fixed_width(self, value, old):
                return accepted(value, 4, False) and stored(self._code, value, 4)

            def exceptional(self, value, exc, old):
                return is_instance_of(exc, AVPAttributeValueError) and not accepted(value, 4, False) \
                    and self._code == old.self._code
        elif field == "flags":
            def ensures_fixed_width(self, value, old):
                return accepted(value, 1, False) and stored(self._flags, value, 1)

            def exceptional(self, value, exc, old):
                return is_instance_of(exc, AVPAttributeValueError) and not accepted(value, 1, False) \
                    and self._flags == old.self._flags
        else:
            def ensures_fixed_width(self, value, old):
                return accepted(value, 4, True) and stored(self._vendor_id, value, 4)

            def exceptional(self, value, exc, old):
                return is_instance_of(exc, AVPAttributeValueError) and not accepted(value, 4, True)

        def control_int_stored_as_zero(self, value):
            return implies(isinstance(value, int), slot(self, "_" + field) == zeros(width))
    return _S


def accepted(value, width, none_ok):
    if value is None:
        return none_ok
    if isinstance(value, int):
        return 0 <= value and value < 256 ** width
    if isinstance(value, bytes):
        return len(value) == width
    return False


def stored(field, value, width):
    if value is None:
        return field is None
    if isinstance(value, int):
        return field == be(value, width)
    return field == value


_setter("code", 4, False)
_setter("flags", 1, False)
_setter("vendor_id", 4, True)
