"""C13 -- each request reaches its registered handler and always gets exactly one answer.

The route handler is an UNKNOWN callable with the outcomes the statement lists: returns an answer,
returns None, returns something that is not an answer, raises a standard exception (with and
without arguments).  Every call is logged in ghost state; the worker's send queue is a FIFO model.
Route table: two applications x two command codes, one code shared across the applications, two
handlers sharing one __name__.
"""
from pyvc.api import contract, T
from pyvc.spec import implies, unbe, be, ghost_get, ghost_set, is_instance_of
import bromelia.base as B
import bromelia.bromelia as BB
from bromelia.exceptions import BromeliaException
from bromelia.constants import DIAMETER_UNABLE_TO_COMPLY
from bromelia.avps.ietf.rfc6733 import (SessionIdAVP, ResultCodeAVP, OriginHostAVP, OriginRealmAVP,
                                         DestinationHostAVP, DestinationRealmAVP)
from contracts.common import header_shape
from contracts.c12_decorate import _answer, _sid

APP1, APP2 = b"\x01\x00\x00\x23", b"\x01\x00\x00\x30"
CMD1, CMD2 = b"\x00\x01\x3e", b"\x00\x01\x3f"


def _dict_avp(cls, data):
    return T.Obj(cls, slots={"_flags": T.Bytes(1), "_data": data, "_vendor_id": T.NoneS, "_padding": T.NoneS},
                 idict={"code": T.Const(cls.code), "vendor_id": T.NoneS})


def _request():
    return T.Obj(B.DiameterRequest,
                 idict={"_header": header_shape(_flags=T.Const(b"\x80")),
                        "_avps": T.ListOf(_sid(), _dict_avp(OriginHostAVP, T.Bytes(minlen=1, maxlen=64)),
                                          _dict_avp(OriginRealmAVP, T.Bytes(minlen=1, maxlen=64))),
                        "_loaded": T.Const(False)},
                 alias={"session_id_avp": ("_avps", 0), "origin_host_avp": ("_avps", 1),
                        "origin_realm_avp": ("_avps", 2)})


def _handler(tag, name):
    return T.Handler(tag, [
        # a proper answer: R and E clear (P either way), any other header content
        ("return", _answer(True, True, False, False,
                           header=header_shape(_flags=T.OneOf(T.Const(b"\x00"), T.Const(b"\x40"))))),
        ("return", T.NoneS),                                    # returns nothing
        ("return", T.OpaqueS()),                                # returns something that is not an answer
        ("echo",),                                              # returns the request object itself
        ("raise", ValueError, ("boom",)),                       # standard exception with a message
        ("raise", RuntimeError, ()),                            # standard exception WITHOUT arguments
    ], name_attr=name)


def _worker():
    import bromelia.setup as S
    app = T.Obj(S.Diameter, idict={"config": T.DictOf(LOCAL_NODE_HOSTNAME=T.Str(minlen=1, maxlen=64),
                                                     LOCAL_NODE_REALM=T.Str(minlen=1, maxlen=64))})
    return T.Obj(BB.Worker, idict={"name": T.Const("w"), "_name": T.Const("w"), "app": app,
                                   "is_open": T.Sync("event", flag=True),
                                   "send_lock": T.Sync("lock"), "send_queue": T.Sync("queue"),
                                   "send_event": T.Sync("event")})


def _bromelia():
    return T.Obj(BB.Bromelia, idict={
        "request_threshold": T.Sync("barrier"), "send_threshold": T.Sync("barrier"),
        "testing_answer": T.NoneS,
        "routes": T.DictOf2({APP1: T.DictOf2({CMD1: _handler("h11", "mar"), CMD2: _handler("h12", "sar")}),
                             APP2: T.DictOf2({CMD1: _handler("h21", "mar"), CMD2: _handler("h22", "other")})}),
        "_routes": T.DictOf2({}),
        "associations": T.DictOf2({APP1: _worker(), APP2: _worker()})})


def registered(request):
    a, c = request._header._application_id, request._header._command_code
    return (a == APP1 or a == APP2) and (c == CMD1 or c == CMD2)


def expected_tag(request):
    a, c = request._header._application_id, request._header._command_code
    if a == APP1:
        return "h11" if c == CMD1 else "h12"
    return "h21" if c == CMD1 else "h22"


def sent_by(self, request):
    return self.associations[request._header._application_id].send_queue.st["items"]


def other_queue(self, request):
    a = request._header._application_id
    return self.associations[APP2 if a == APP1 else APP1].send_queue.st["items"]


def one_call_to_the_registered_handler(request):
    calls = ghost_get("calls")
    return calls is not None and len(calls) == 1 and calls[0][0] == expected_tag(request) \
        and calls[0][1][0] is request


def exactly_one_answer(self, request):
    q = sent_by(self, request)
    return len(q) == 1 and len(other_queue(self, request)) == 0 \
        and is_instance_of(q[0], B.DiameterAnswer) \
        and q[0]._header._hop_by_hop == request._header._hop_by_hop \
        and q[0]._header._end_to_end == request._header._end_to_end \
        and q[0]._header._application_id == request._header._application_id \
        and unbe(q[0]._header._flags) & 0x80 == 0


def data_of_named(msg, name):
    return getattr(msg, name)._data


def is_unable_to_comply(self, request):
    return error_answer_ok(self, request, sent_by(self, request)[0])


# ------------------------------------------------------------------ callees, each under its own contract
def _queue_effect(ctx, ns):
    """what Bromelia.send_message does for an ANSWER (proved against the real body by the contract
    below; at call sites this hook applies it and the ensures clauses are then PROVED about it)"""
    app = ns["msg"].idict["_header"].slots["_application_id"]
    worker = ctx.dict_get(ns["self"].idict["associations"], app, None)
    if worker is None:
        ctx.py_raise(KeyError, app)
    from pyvc.extmodels import sync_method
    sync_method(ctx, worker.idict["send_lock"], "acquire", [], {})
    sync_method(ctx, worker.idict["send_queue"], "put", [ns["msg"]], {})
    sync_method(ctx, worker.idict["send_event"], "set", [], {})
    return None


def _is_answer(ctx, ns):
    from pyvc.values import SObj
    m = ns["msg"]
    return isinstance(m, SObj) and issubclass(m.cls, B.DiameterAnswer)


def answer_msg_shape():
    return _answer(True, True, False, False)


def queue_of(self, msg):
    return self.associations[msg._header._application_id].send_queue.st["items"]


def snap_queue(self, msg):
    from pyvc.spec import ghost_set
    return ghost_set("q0", list(queue_of(self, msg)))


@contract("bromelia.bromelia.Bromelia.send_message", prop="C13", name="answer")
class _SendAnswer:
    """sending an ANSWER hands exactly that object to the worker that owns its Application-ID, once,
    and does not wait for anything afterwards"""
    args = {"self": _bromelia(), "msg": answer_msg_shape()}
    at_calls = True
    accepts = _is_answer
    effect = _queue_effect
    check_effect = True
    snapshot_spec = snap_queue

    def requires(self, msg):
        a = msg._header._application_id
        return (a == APP1 or a == APP2) and unbe(msg._header._flags) & 0x80 == 0

    def ensures_enqueued_once_on_its_worker(self, msg):
        return queue_of(self, msg) == ghost_get("q0") + [msg]

    def ensures_returns_nothing(result):
        return result is None

    def ensures_send_event_set(self, msg):
        w = self.associations[msg._header._application_id]
        return w.send_event.st["flag"] == True and w.send_lock.st["held"] == True


def _error_answer_shape():
    def av(cls, n):
        return _dict_avp(cls, T.Bytes(minlen=1, maxlen=n))
    items = [av(SessionIdAVP, 4096), _dict_avp(ResultCodeAVP, T.Bytes(4)), av(OriginHostAVP, 256),
             av(OriginRealmAVP, 256), av(DestinationRealmAVP, 64), av(DestinationHostAVP, 64)]
    names = ["session_id_avp", "result_code_avp", "origin_host_avp", "origin_realm_avp",
             "destination_realm_avp", "destination_host_avp"]
    return T.Obj(B.DiameterAnswer, idict={"_header": header_shape(), "_avps": T.ListOf(*items),
                                          "_loaded": T.Const(False)},
                 alias={n: ("_avps", i) for i, n in enumerate(names)})


def error_answer_ok(self, request, m):
    cfg = self.associations[request._header._application_id].app.config
    return (is_instance_of(m, B.DiameterAnswer)
            and data_of_named(m, "session_id_avp") == request.session_id_avp._data
            and data_of_named(m, "result_code_avp") == DIAMETER_UNABLE_TO_COMPLY
            and data_of_named(m, "origin_host_avp") == cfg["LOCAL_NODE_HOSTNAME"].encode("utf-8")
            and data_of_named(m, "origin_realm_avp") == cfg["LOCAL_NODE_REALM"].encode("utf-8")
            and data_of_named(m, "destination_realm_avp") == request.origin_realm_avp._data
            and data_of_named(m, "destination_host_avp") == request.origin_host_avp._data
            and m._header._hop_by_hop == request._header._hop_by_hop
            and m._header._end_to_end == request._header._end_to_end
            and m._header._application_id == request._header._application_id
            and unbe(m._header._flags) & 0x80 == 0)


@contract("bromelia.bromelia.Bromelia.create_error_answer", prop="C13", name="_")
class _CreateErrorAnswer:
    """DIAMETER_UNABLE_TO_COMPLY carrying the request's identifiers and Session-Id, the local origin
    and the requester as destination"""
    args = {"self": _bromelia(), "request": _request()}
    at_calls = True
    returns = _error_answer_shape()

    def requires(request):
        return registered(request)

    def ensures_unable_to_comply_for_this_request(self, request, result):
        return error_answer_ok(self, request, result)

    def exceptional(exc):
        return False


def _return_the_answer(ctx, ns):
    return ns["answer"]


def _plain_answer(ctx, ns):
    from pyvc.values import SObj
    a = ns["answer"]
    return isinstance(a, SObj) and isinstance(a.idict, dict) \
        and "experimental_result_avp" not in a.idict and "session_id_avp" in a.idict


@contract("bromelia.bromelia.decorate_answer", prop="C13", name="at-call")
class _DecorateAtCall:
    """summary of C12 used where callback_route calls decorate_answer (discharged by the C12
    obligations for this answer shape: Session-Id + Result-Code, no Experimental-Result)"""
    args = {"answer": _answer(True, True, False, False), "request": _request()}
    at_calls = True
    accepts = _plain_answer
    effect = _return_the_answer
    proof = "table"
    native_real = True
    modifies = {"answer._header._application_id": T.Bytes(4), "answer._header._hop_by_hop": T.Bytes(4),
                "answer._header._end_to_end": T.Bytes(4), "answer._header._flags": T.Bytes(1),
                "answer._header._length": T.Bytes(3), "answer.session_id_avp._data": T.Bytes(minlen=1, maxlen=4096)}
    assumes = ("decorate_answer at its call site in callback_route is summarised by the C12 contract "
               "(identifiers, Application-ID and Session-Id copied, R bit untouched); C12 discharges it",)

    def ensures_c12(answer, request, result, old):
        return result is answer and answer._header._application_id == request._header._application_id \
            and answer._header._hop_by_hop == request._header._hop_by_hop \
            and answer._header._end_to_end == request._header._end_to_end \
            and answer.session_id_avp._data == request.session_id_avp._data \
            and unbe(answer._header._flags) & 0xdf == unbe(old.answer._header._flags) & 0xdf


@contract("bromelia.bromelia.Bromelia.callback_route", prop="C13", name="_")
class _CallbackRoute:
    args = {"self": _bromelia(), "request": _request()}
    max_paths = 3000

    def requires(request):
        return registered(request)

    def ensures_handler_answer_is_sent(self, request):
        # normal return = the handler produced an answer
        return one_call_to_the_registered_handler(request) and exactly_one_answer(self, request) \
            and sent_by(self, request)[0].session_id_avp._data == request.session_id_avp._data

    def exceptional(self, request, exc):
        # the only exception allowed: BromeliaException AFTER the UNABLE_TO_COMPLY answer went out
        return is_instance_of(exc, BromeliaException) and one_call_to_the_registered_handler(request) \
            and exactly_one_answer(self, request) and is_unable_to_comply(self, request)

    def control_two_answers(self, request):
        return len(sent_by(self, request)) == 2


def do_register(self, f):
    self.route(APP2, CMD2)(f)
    return self.routes


@contract("bromelia.bromelia.Bromelia.route", prop="C13", name="registration")
class _Route:
    """registering a handler makes it THE handler of exactly that (application, command) pair"""
    args = {"self": T.Obj(BB.Bromelia, idict={
        "routes": T.DictOf2({APP1: T.DictOf2({CMD1: _handler("h11", "mar"), CMD2: _handler("h12", "sar")}),
                             APP2: T.DictOf2({CMD1: _handler("h21", "mar")})}),
        "_routes": T.DictOf2({})}), "f": _handler("new", "mar")}
    call = do_register

    def ensures_registered_there_only(self, f, old):
        r = self.routes
        return r[APP2][CMD2] is f and len(r) == 2 and len(r[APP1]) == 2 and len(r[APP2]) == 2 \
            and r[APP1][CMD1].tag == "h11" and r[APP1][CMD2].tag == "h12" and r[APP2][CMD1].tag == "h21"


@contract("bromelia.bromelia.Bromelia.get_request_callback", prop="C13", name="_")
class _GetCallback:
    args = {"self": _bromelia(), "request": _request()}

    def requires(request):
        return registered(request)

    def ensures_the_registered_one(request, result):
        return result.tag == expected_tag(request)


# ------------------------------------------------------------------ fetching the next request from the workers' queues
def _recv_pairs(n):
    # every connection worker's inbound queue: empty, or a known head followed by an unknown number of further
    # requests; its lock free
    q = lambda: T.OneOf(T.Sync("queue"), T.Sync("queue", items=[_request()], extra=True))      # noqa: E731
    return T.ListOf(*[T.ListOf(q(), T.Sync("lock")) for _ in range(n)])


def snap_queues(self):
    return ghost_set("rq0", [list(p[0].st["items"]) for p in self.recv_queues])


def _incoming_contract(n):
    @contract("bromelia.bromelia.Bromelia.get_incoming_message", prop="C13", name="%d-queues" % n, also=("C04", "C14"))
    class _Incoming:
        """one call takes AT MOST ONE request, the head of one worker's queue, and returns it: no request is
        taken from a queue without being returned (it would never reach its handler nor get an answer); with
        every queue empty nothing is returned and nothing changes; all locks are free afterwards"""
        args = {"self": T.Obj(BB.Bromelia, idict={"recv_queues": _recv_pairs(n)})}
        snapshot_spec = snap_queues
        bounded = "%d connection workers (queues: empty or a known head + unknown tail)" % n

        def ensures_at_most_one_taken_and_it_is_returned(self, result):
            q0 = ghost_get("rq0")
            taken = 0
            ok = True
            for i in range(len(q0)):
                now = self.recv_queues[i][0].st["items"]
                if len(now) != len(q0[i]):
                    taken = taken + 1
                    ok = ok and len(q0[i]) >= 1 and len(now) == len(q0[i]) - 1 and result is q0[i][0]
            return ok and taken <= 1 and (taken == 1) == (result is not None)

        def ensures_something_queued_is_returned(self, result):
            q0 = ghost_get("rq0")
            some = False
            for items in q0:
                some = some or len(items) > 0
            return implies(some, result is not None)

        def ensures_locks_free(self):
            ok = True
            for p in self.recv_queues:
                ok = ok and p[1].st["held"] == False
            return ok

        def exceptional(exc):
            return False
    return _Incoming


for _n in (1, 2, 3):
    _incoming_contract(_n)
