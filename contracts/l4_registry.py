"""L4 -- the AVP class registry and naming helpers.

get_avp_class_name / avp_look_up are used by the containers only to derive attribute names; callers
are checked against "returns some str" (at_calls).  That contract is discharged by evaluation over
the finite registry the import yields (table obligation below), not by symbolic execution: the
functions walk a 200-entry dictionary.
"""
from pyvc.api import contract, T, table
import bromelia.base as B
import bromelia._internal_utils as IU
from contracts.common import any_avp_shape


def _probe(ctx, avp):
    """a real DiameterAVP with the same (code, vendor) when both are concrete, else None"""
    from pyvc.spec import raw as _raw
    from pyvc.values import is_sym as _is_sym
    code = ctx.call_function(_raw, [avp, "code"], {})
    vendor = ctx.call_function(_raw, [avp, "vendor_id"], {})
    if _is_sym(code) or (vendor is not None and _is_sym(vendor)):
        return None
    return B.DiameterAVP(code=bytes(code), vendor_id=None if vendor is None else bytes(vendor),
                         flags=0x80 if vendor else 0)


def _class_name_effect(ctx, ns):
    p = _probe(ctx, ns["avp"])
    if p is not None:
        return B.loader.get_avp_class_name(p)       # the real function on a concrete key
    return ctx.fresh_str("avp_class_name")


def _look_up_effect(ctx, ns):
    p = _probe(ctx, ns["avp"])
    if p is not None:
        return IU.avp_look_up(p)
    return ctx.fresh_str("avp_look_up")


@contract("bromelia.base.DiameterAvpLoader.get_avp_class_name", prop="C10", name="naming")
class _ClassName:
    args = {"self": T.Const(B.loader, path="bromelia.base:loader"), "avp": any_avp_shape()}
    at_calls = True
    effect = _class_name_effect
    assumes = ("DiameterAvpLoader.get_avp_class_name returns a str for every AVP "
               "(discharged by evaluation over the imported registry: C10/registry-names)",)
    proof = "table"


@contract("bromelia._internal_utils.avp_look_up", prop="C10", name="naming")
class _LookUp:
    args = {"avp": any_avp_shape()}
    at_calls = True
    effect = _look_up_effect
    proof = "table"


@table("registry-names", prop="C10")
def registry_names():
    """every registered class name minus its 'AVP' suffix has no '-' (so get_avp_class_name returns a
    str, never None), and every dictionary entry of avp_look_up's table has a str name"""
    out = []
    bad = []
    classes = B.DiameterAVP.__subclasses__()
    for c in classes:
        nm = c.__name__[:-3]
        if len(nm.split("-")) != 1:
            bad.append(c.__name__)
    out.append(("class-names-have-no-dash", not bad, bad))
    from bromelia.definitions import diameter_avps
    bad2 = [d for d in diameter_avps if not isinstance(d.get("name"), str) or not isinstance(d.get("id"), int)]
    out.append(("definitions-names-are-str", not bad2, bad2[:5]))
    return out


# =========================================================================================
#  registry lookup with a symbolic key, and the schematic dictionary-class constructor
# =========================================================================================
import z3                                                             # noqa: E402
from pyvc.values import SObj, SBytes, SExc, BSEQ, bytes_term, is_sym  # noqa: E402
from pyvc.seqs import SAbstractClass                                  # noqa: E402
from pyvc.models import digits_value                                  # noqa: E402
from bromelia.exceptions import (DataTypeError, AVPAttributeValueError, AVPParsingError,     # noqa: E402
                                 DiameterAvpError)
from contracts.common import AVP_ELEM                                 # noqa: E402

# uninterpreted description of the registry: is (vendor?, code) registered; default flags of the class
REGISTERED = z3.Function("registered", z3.BoolSort(), z3.IntSort(), z3.IntSort(), z3.BoolSort())
DFLAGS = z3.Function("default_flags", z3.BoolSort(), z3.IntSort(), z3.IntSort(), z3.IntSort())
CTOR_ERRORS = (DataTypeError, AVPAttributeValueError, AVPParsingError, DiameterAvpError)


def _key_terms(ctx, code, vendor):
    from pyvc.models import _m_int_from_bytes
    from pyvc.values import int_term
    c = _m_int_from_bytes(ctx, [code, "big"], {})
    ct = int_term(c)
    if vendor is None:
        return z3.BoolVal(False), z3.IntVal(0), ct
    v = _m_int_from_bytes(ctx, [vendor, "big"], {})
    return z3.BoolVal(True), int_term(v), ct


def _concrete_lookup(code, vendor):
    key = vendor if vendor is not None else B.VENDOR_ID_DEFAULT if hasattr(B, "VENDOR_ID_DEFAULT") else None
    table = B.loader._get_load_avps_dictionary()
    from bromelia.constants import VENDOR_ID_DEFAULT
    return table[vendor if vendor is not None else VENDOR_ID_DEFAULT][code]


def dict_ctor(ctx, acls, args, kwargs):
    """SCHEMATIC CONSTRUCTOR CONTRACT of a registered dictionary class applied to wire data
    (proved per class under C10, obligations C10/<class>[wire]/...): either one of the library's
    errors is raised, or the object carries the class's code and vendor (== the lookup key), the
    class's default flags, and the data unchanged."""
    data = args[0] if args else kwargs.get("data")
    ctx.used_contracts.add("C10/schematic-dictionary-constructor")
    k = ctx.choose(1 + len(CTOR_ERRORS), "ctor-outcome")
    if k > 0:
        from pyvc.engine import PyRaise
        exc = SExc(CTOR_ERRORS[k - 1], (ctx.fresh_str("msg"),))
        exc.extra.setdefault("via", set()).add("%s.__init__" % acls.key["shape_cls"].__name__)
        raise PyRaise(exc)
    hv, vt, ct = acls.key["terms"]
    o = SObj(acls.key["shape_cls"], has_dict=True)
    fl = DFLAGS(hv, vt, ct)
    ctx.assume_raw(z3.And(fl >= 0, fl <= 255))
    # V bit set exactly for vendor-specific classes (C10 identity obligation)
    ctx.assume_raw((fl / 128) % 2 == (1 if acls.key["vendor"] is not None else 0))
    o.slots["_flags"] = SBytes(elems=[fl])
    o.slots["_vendor_id"] = acls.key["vendor"]
    o.slots["_data"] = data
    o.slots["_padding"] = None
    o.idict["code"] = acls.key["code"]
    o.idict["vendor_id"] = acls.key["vendor"]
    return o


def _get_avp_class_effect(ctx, ns):
    avp = ns["avp"]
    from pyvc.spec import raw as _raw
    code = ctx.call_function(_raw, [avp, "code"], {})
    vendor = ctx.call_function(_raw, [avp, "vendor_id"], {})
    if not is_sym(code) and (vendor is None or not is_sym(vendor)):
        try:
            return _concrete_lookup(bytes(code), None if vendor is None else bytes(vendor))
        except KeyError as e:
            ctx.py_raise(KeyError, *e.args)
    hv, vt, ct = _key_terms(ctx, code, vendor)
    if ctx.branch(REGISTERED(hv, vt, ct)):
        from contracts.common import _DictShapeClass
        return SAbstractClass("dictionary-avp-class",
                              {"code": code, "vendor": vendor, "terms": (hv, vt, ct),
                               "shape_cls": _DictShapeClass}, dict_ctor)
    ctx.py_raise(KeyError, code)


@contract("bromelia.base.DiameterAvpLoader.get_avp_class", prop="C10", name="lookup")
class _GetAvpClass:
    """returns the class registered under the AVP's (vendor, code), else KeyError.  For a symbolic
    key the result is 'some registered class for this key' (the registry is a function: table
    obligation C10/registry-is-a-function); calling it applies the schematic constructor contract."""
    args = {"self": T.Const(B.loader, path="bromelia.base:loader"), "avp": any_avp_shape()}
    at_calls = True
    effect = _get_avp_class_effect
    proof = "table"
    assumes = ("DiameterAvpLoader.get_avp_class dispatches by exact (vendor, code) key into the table built "
               "from DiameterAVP.__subclasses__() (discharged by evaluation: C10/registry-is-a-function, "
               "C10/registry-dispatch)",)


def flags_are_default(code, vendor, flags):
    """spec predicate: if (vendor, code) is a registered pair, `flags` are that class's default flags.
    Native meaning: look the pair up in the real registry."""
    from bromelia.constants import VENDOR_ID_DEFAULT
    table = B.loader._get_load_avps_dictionary()
    cls = table.get(vendor if vendor is not None else VENDOR_ID_DEFAULT, {}).get(code)
    if cls is None:
        return True
    import json, os
    ref = json.load(open(os.path.join(os.path.dirname(os.path.dirname(os.path.abspath(__file__))),
                                      "reference", "avp_dictionary.json")))
    r = ref.get(cls.__module__ + "." + cls.__name__)
    return r is None or flags == bytes([r["default_flags"]])


def _flags_are_default_model(ctx, args, kwargs):
    from pyvc.values import SBool, int_term
    from pyvc.models import _m_int_from_bytes
    code, vendor, flags = args
    hv, vt, ct = _key_terms(ctx, code, vendor)
    fl = int_term(_m_int_from_bytes(ctx, [flags, "big"], {}))
    return SBool(z3.Implies(REGISTERED(hv, vt, ct), fl == DFLAGS(hv, vt, ct)))


from pyvc.models import ModelsMixin as _MM                            # noqa: E402
_MM.FUNCTION_MODELS["contracts.l4_registry.flags_are_default"] = _flags_are_default_model
