"""L4 -- the AVP class registry and naming helpers.

get_avp_class_name / avp_look_up are used by the containers only to derive attribute names; callers
are checked against "returns some str" (at_calls).  That contract is discharged by evaluation over
the finite registry the import yields (table obligation below), not by symbolic execution: the
functions walk a 200-entry dictionary.
"""
from pyvc.api import contract, T, table
import bromelia.base as B
import bromelia._internal_utils as IU
from contracts.common import any_avp_shape


@contract("bromelia.base.DiameterAvpLoader.get_avp_class_name", prop="C10", name="naming")
class _ClassName:
    args = {"self": T.Const(B.loader, path="bromelia.base:loader"), "avp": any_avp_shape()}
    at_calls = True
    returns = T.Str()
    assumes = ("DiameterAvpLoader.get_avp_class_name returns a str for every AVP "
               "(discharged by evaluation over the imported registry: C10/registry-names)",)
    proof = "table"


@contract("bromelia._internal_utils.avp_look_up", prop="C10", name="naming")
class _LookUp:
    args = {"avp": any_avp_shape()}
    at_calls = True
    returns = T.Str()
    proof = "table"


@table("registry-names", prop="C10")
def registry_names():
    """every registered class name minus its 'AVP' suffix has no '-' (so get_avp_class_name returns a
    str, never None), and every dictionary entry of avp_look_up's table has a str name"""
    out = []
    bad = []
    classes = B.DiameterAVP.__subclasses__()
    for c in classes:
        nm = c.__name__[:-3]
        if len(nm.split("-")) != 1:
            bad.append(c.__name__)
    out.append(("class-names-have-no-dash", not bad, bad))
    from bromelia.definitions import diameter_avps
    bad2 = [d for d in diameter_avps if not isinstance(d.get("name"), str) or not isinstance(d.get("id"), int)]
    out.append(("definitions-names-are-str", not bad2, bad2[:5]))
    return out
