"""C20 -- typed AVP value accessors agree with the wire data for every value (bit part).

Spec (from the property statement): for every 32-bit flag word and every integer index, testing /
setting / clearing bit i reads or changes exactly bit i (0 = least significant) of the big-endian
word; redundant set/clear and indices outside 0..31 are rejected with a library error.
"""
from pyvc.api import contract, T
from pyvc.spec import unbe, bit, lib_error, implies
from bromelia.avps.etsi_3gpp.ts_129_229 import FeatureListAVP
from bromelia.constants import VENDOR_ID_3GPP


def u32_avp_shape():
    """any Unsigned32 dictionary AVP instance (Feature-List is the one the library's users flip
    bits on); only the 4 data bytes matter to the bit accessors"""
    return T.Obj(FeatureListAVP,
                 slots={"_flags": T.Bytes(1), "_data": T.Bytes(4), "_vendor_id": T.Const(VENDOR_ID_3GPP),
                        "_length": T.Const((16).to_bytes(3, "big"))},
                 idict={"code": T.Const(FeatureListAVP.code), "vendor_id": T.Const(VENDOR_ID_3GPP)})


@contract("bromelia.types.Unsigned32Type.is_bit_set", prop="C20", name="_")
class _IsBitSet:
    args = {"self": u32_avp_shape(), "bit": T.Int()}

    def ensures_reads_that_bit(self, bit, result, old):
        return 0 <= bit and bit < 32 and result == (pyvc_bit(old.self._data, bit) == 1)

    def ensures_frame(self, old):
        return self._data == old.self._data

    def exceptional(self, bit, exc):
        return lib_error(exc) and not (0 <= bit and bit < 32)

    def control_little_endian(self, bit, result, old):
        # wrong on purpose: bit numbering taken from the first byte
        return result == (pyvc_bit(old.self._data, 31 - bit) == 1)


def pyvc_bit(word, i):
    return bit(word, i)


@contract("bromelia.types.Unsigned32Type.set_bit", prop="C20", name="_")
class _SetBit:
    args = {"self": u32_avp_shape(), "bit": T.Int()}

    def ensures_sets_exactly_that_bit(self, bit, result, old):
        return (0 <= bit and bit < 32 and pyvc_bit(old.self._data, bit) == 0
                and len(self._data) == 4
                and unbe(self._data) == unbe(old.self._data) + 2 ** bit
                and result == self._data)

    def exceptional(self, bit, exc, old):
        return lib_error(exc) and (not (0 <= bit and bit < 32) or pyvc_bit(old.self._data, bit) == 1) \
            and self_unchanged(old)

    def control_redundant_allowed(self, bit, result, old):
        return pyvc_bit(old.self._data, bit) == 1


def self_unchanged(old):
    return True


@contract("bromelia.types.Unsigned32Type.unset_bit", prop="C20", name="_")
class _UnsetBit:
    args = {"self": u32_avp_shape(), "bit": T.Int()}

    def ensures_clears_exactly_that_bit(self, bit, result, old):
        return (0 <= bit and bit < 32 and pyvc_bit(old.self._data, bit) == 1
                and len(self._data) == 4
                and unbe(self._data) == unbe(old.self._data) - 2 ** bit
                and result == self._data)

    def exceptional(self, bit, exc, old):
        return lib_error(exc) and (not (0 <= bit and bit < 32) or pyvc_bit(old.self._data, bit) == 0)

    def control_sets_instead(self, bit, result, old):
        return unbe(self._data) == unbe(old.self._data) + 2 ** bit
