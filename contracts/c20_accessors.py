"""C20 -- typed AVP value accessors agree with the wire data for every value (bit part).

Spec (from the property statement): for every 32-bit flag word and every integer index, testing /
setting / clearing bit i reads or changes exactly bit i (0 = least significant) of the big-endian
word; redundant set/clear and indices outside 0..31 are rejected with a library error.
"""
from pyvc.api import contract, T
from pyvc.spec import unbe, bit, lib_error, implies
from bromelia.avps.etsi_3gpp.ts_129_229 import FeatureListAVP
from bromelia.constants import VENDOR_ID_3GPP


def u32_avp_shape():
    """any Unsigned32 dictionary AVP instance (Feature-List is the one the library's users flip
    bits on); only the 4 data bytes matter to the bit accessors"""
    return T.Obj(FeatureListAVP,
                 slots={"_flags": T.Bytes(1), "_data": T.Bytes(4), "_vendor_id": T.Const(VENDOR_ID_3GPP),
                        "_length": T.Const((16).to_bytes(3, "big"))},
                 idict={"code": T.Const(FeatureListAVP.code), "vendor_id": T.Const(VENDOR_ID_3GPP)})


@contract("bromelia.types.Unsigned32Type.is_bit_set", prop="C20", name="_")
class _IsBitSet:
    args = {"self": u32_avp_shape(), "bit": T.Int()}

    def ensures_reads_that_bit(self, bit, result, old):
        return 0 <= bit and bit < 32 and result == (pyvc_bit(old.self._data, bit) == 1)

    def ensures_frame(self, old):
        return self._data == old.self._data

    def exceptional(self, bit, exc):
        return lib_error(exc) and not (0 <= bit and bit < 32)

    def control_little_endian(self, bit, result, old):
        # wrong on purpose: bit numbering taken from the first byte
        return result == (pyvc_bit(old.self._data, 31 - bit) == 1)


def pyvc_bit(word, i):
    return bit(word, i)


@contract("bromelia.types.Unsigned32Type.set_bit", prop="C20", name="_")
class _SetBit:
    args = {"self": u32_avp_shape(), "bit": T.Int()}

    def ensures_sets_exactly_that_bit(self, bit, result, old):
        return (0 <= bit and bit < 32 and pyvc_bit(old.self._data, bit) == 0
                and len(self._data) == 4
                and unbe(self._data) == unbe(old.self._data) + 2 ** bit
                and result == self._data)

    def exceptional(self, bit, exc, old):
        return lib_error(exc) and (not (0 <= bit and bit < 32) or pyvc_bit(old.self._data, bit) == 1) \
            and self_unchanged(old)

    def control_redundant_allowed(self, bit, result, old):
        return pyvc_bit(old.self._data, bit) == 1


def self_unchanged(old):
    return True


@contract("bromelia.types.Unsigned32Type.unset_bit", prop="C20", name="_")
class _UnsetBit:
    args = {"self": u32_avp_shape(), "bit": T.Int()}

    def ensures_clears_exactly_that_bit(self, bit, result, old):
        return (0 <= bit and bit < 32 and pyvc_bit(old.self._data, bit) == 1
                and len(self._data) == 4
                and unbe(self._data) == unbe(old.self._data) - 2 ** bit
                and result == self._data)

    def exceptional(self, bit, exc, old):
        return lib_error(exc) and (not (0 <= bit and bit < 32) or pyvc_bit(old.self._data, bit) == 0)

    def control_sets_instead(self, bit, result, old):
        return unbe(self._data) == unbe(old.self._data) + 2 ** bit


# =========================================================================================
#  Address and Time (against assumed contracts of ipaddress / a model of naive datetimes)
# =========================================================================================
import datetime                                                       # noqa: E402
from pyvc.spec import be, is_instance_of                              # noqa: E402
from bromelia.avps.ietf.rfc6733 import HostIpAddressAVP, EventTimestampAVP    # noqa: E402
from bromelia.exceptions import DataTypeError                         # noqa: E402
from bromelia.constants import HOST_IP_ADDRESS_FAMILY_CODE_IPV4, HOST_IP_ADDRESS_FAMILY_CODE_IPV6   # noqa: E402
import ipaddress                                                      # noqa: E402


def _addr_self():
    return T.Obj(HostIpAddressAVP, slots={"_flags": T.Bytes(1)},
                 idict={"code": T.Const(HostIpAddressAVP.code), "vendor_id": T.NoneS})


@contract("bromelia.types.AddressType.parser_data", prop="C20", name="literal")
class _AddrFromLiteral:
    """an IPv4 / IPv6 literal is stored as family code (0001 / 0002) + the packed address"""
    args = {"self": _addr_self(), "data": T.Str()}

    def ensures_family_then_packed(self, data):
        a = ipaddress.ip_address(data)
        return implies(is_instance_of(a, ipaddress.IPv4Address),
                       self._data == HOST_IP_ADDRESS_FAMILY_CODE_IPV4 + a.packed and len(self._data) == 6) \
            and implies(is_instance_of(a, ipaddress.IPv6Address),
                        self._data == HOST_IP_ADDRESS_FAMILY_CODE_IPV6 + a.packed and len(self._data) == 18)

    def exceptional(self, data, exc):
        # not a literal: the library lets ipaddress' ValueError through (an exception, as C10/C20 allow)
        return is_instance_of(exc, ValueError)

    def control_family_swapped(self, data):
        a = ipaddress.ip_address(data)
        return implies(is_instance_of(a, ipaddress.IPv4Address),
                       self._data == HOST_IP_ADDRESS_FAMILY_CODE_IPV6 + a.packed)


def _addr_obj(family):
    n = 4 if family == 4 else 16
    code = HOST_IP_ADDRESS_FAMILY_CODE_IPV4 if family == 4 else HOST_IP_ADDRESS_FAMILY_CODE_IPV6
    return T.Obj(HostIpAddressAVP, slots={"_flags": T.Bytes(1), "_data": T.Concat(T.Const(code), T.Bytes(n))},
                 idict={"code": T.Const(HostIpAddressAVP.code), "vendor_id": T.NoneS})


def _accessor_contracts(family):
    n = 4 if family == 4 else 16

    @contract("bromelia.types.AddressType.get_ip_address", prop="C20", name="ipv%d" % family)
    class _Get:
        """the accessors report the family and the address the data encodes"""
        args = {"self": _addr_obj(family)}

        def ensures_same_address(self, result):
            a = ipaddress.ip_address(self._data[2:])
            return result == str(a) and len(self._data[2:]) == n

        def ensures_reparses_to_same_data(self, result):
            return ipaddress.ip_address(result).packed == self._data[2:]

    @contract("bromelia.types.AddressType.is_ipv4", prop="C20", name="ipv%d" % family)
    class _Is4:
        args = {"self": _addr_obj(family)}

        def ensures_family(result):
            return result == (family == 4)

    @contract("bromelia.types.AddressType.is_ipv6", prop="C20", name="ipv%d" % family)
    class _Is6:
        args = {"self": _addr_obj(family)}

        def ensures_family(result):
            return result == (family == 6)


_accessor_contracts(4)
_accessor_contracts(6)


@contract("bromelia.types.AddressType.parser_data", prop="C20", name="bytes")
class _AddrFromBytes:
    """wire data: family code + exactly 4 / 16 address bytes, else the library's DataTypeError"""
    args = {"self": _addr_self(), "data": T.Bytes()}

    def ensures_family_and_width(self, data):
        return self._data == data and \
            implies(data[:2] == HOST_IP_ADDRESS_FAMILY_CODE_IPV4, len(data) == 6) and \
            implies(data[:2] == HOST_IP_ADDRESS_FAMILY_CODE_IPV6, len(data) == 18)

    def exceptional(self, data, exc):
        return is_instance_of(exc, DataTypeError) and (
            (data[:2] == HOST_IP_ADDRESS_FAMILY_CODE_IPV4 and len(data) != 6)
            or (data[:2] == HOST_IP_ADDRESS_FAMILY_CODE_IPV6 and len(data) != 18))


# ---- Time
EPOCH_1900 = datetime.datetime(1900, 1, 1, 0, 0, 0)


def _time_self():
    return T.Obj(EventTimestampAVP, slots={"_flags": T.Bytes(1)},
                 idict={"code": T.Const(EventTimestampAVP.code), "vendor_id": T.NoneS})


def whole_seconds_since_1900(t):
    d = t - EPOCH_1900
    return d.days * 86400 + d.seconds


@contract("bromelia.types.TimeType.__init__", prop="C20", name="datetime")
class _TimeFromDatetime:
    """every representable instant (1900-01-01 .. 2036-02-07 06:28:15) is encoded as its whole
    seconds since 1900-01-01 in 4 big-endian bytes; instants outside raise"""
    args = {"self": _time_self(), "data": T.DateTime()}

    def ensures_seconds_since_1900(self, data):
        n = whole_seconds_since_1900(data)
        return 0 <= n and n < 4294967296 and self._data == be(n, 4)

    def exceptional(self, data, exc):
        n = whole_seconds_since_1900(data)
        return not (0 <= n and n < 4294967296)

    def control_unix_epoch(self, data):
        return self._data == be(whole_seconds_since_1900(data) - 2208988800, 4)


@contract("bromelia.types.TimeType.__init__", prop="C20", name="bytes")
class _TimeFromBytes:
    args = {"self": _time_self(), "data": T.Bytes()}

    def ensures_four_bytes_kept(self, data):
        return len(data) == 4 and self._data == data

    def exceptional(self, data, exc):
        return is_instance_of(exc, DataTypeError) and len(data) != 4


# ------------------------------------------------------------------ bounded companion (never counted as proved)
from pyvc.api import table          # noqa: E402


def _native_u32(word):
    a = FeatureListAVP(vendor_id=VENDOR_ID_3GPP, feature_list_id=1) if False else FeatureListAVP.__new__(FeatureListAVP)
    object.__setattr__(a, "_flags", b"\x80")
    object.__setattr__(a, "_data", word.to_bytes(4, "big"))
    object.__setattr__(a, "_vendor_id", VENDOR_ID_3GPP)
    object.__setattr__(a, "_length", (16).to_bytes(3, "big"))
    a.__dict__["code"] = FeatureListAVP.code
    a.__dict__["vendor_id"] = VENDOR_ID_3GPP
    return a


@table("bit-accessors-small", prop="C20")
def bit_accessors_small():
    """the clauses of the three bit-accessor contracts evaluated natively on the real methods for a spread of
    32-bit words (all single bits, their complements, corner words) x every index in -2..34"""
    from pyvc.conform import conform
    words = [0, 1, 2 ** 31, 2 ** 32 - 1, 0x00ff00ff, 0x12345678, 0x80000001, 0x7fffffff] \
        + [1 << i for i in range(32)] + [(2 ** 32 - 1) ^ (1 << i) for i in range(0, 32, 5)]
    out = []
    for f in ("is_bit_set", "set_bit", "unset_bit"):
        chk, skip, fails = conform("C20/types.Unsigned32Type." + f,
                                   ({"self": _native_u32(w), "bit": i} for w in words for i in range(-2, 35)))
        out.append((f, not fails and chk > 0, {"checked": chk, "failing": fails}))
    return out


bit_accessors_small.bounded = "57 words x indices -2..34, native evaluation of the contract clauses"


@table("time-and-address-small", prop="C20")
def time_and_address_small():
    """Time AVPs (real classes, native): whole seconds since 1900-01-01 == floor for instants with every kind of
    microsecond part (0, 1, 499999, 500000, 999999) at the corners of the representable range and a spread of
    dates; Address AVPs: family code + packed address, reported back unchanged, for a spread of IPv4/IPv6 literals"""
    import datetime
    import ipaddress
    from bromelia.avps import EventTimestampAVP, HostIpAddressAVP
    epoch = datetime.datetime(1900, 1, 1)
    bad_t, nt = [], 0
    instants = [datetime.datetime(1900, 1, 1, 0, 0, 0), datetime.datetime(1900, 1, 1, 0, 0, 1),
                datetime.datetime(1968, 1, 20, 3, 14, 7), datetime.datetime(1968, 1, 20, 3, 14, 8),
                datetime.datetime(1999, 12, 31, 23, 59, 59), datetime.datetime(2020, 11, 12, 18, 15, 55),
                datetime.datetime(2036, 2, 7, 6, 28, 14), datetime.datetime(2036, 2, 7, 6, 28, 15)]
    for base in instants:
        for us in (0, 1, 499999, 500000, 999999):
            nt += 1
            t = base.replace(microsecond=us)
            want = int((t - epoch) // datetime.timedelta(seconds=1))
            try:
                a = EventTimestampAVP(t)
                got = int.from_bytes(a.data, "big")
                ok = got == want and len(a.data) == 4
            except BaseException as e:  # noqa
                ok, got = False, "raised %s" % type(e).__name__
            if not ok and len(bad_t) < 6:
                bad_t.append({"instant": t.isoformat(), "seconds": got, "want": want})
    bad_a, na = [], 0
    for lit in ("0.0.0.0", "10.0.0.1", "127.0.0.1", "192.168.255.254", "255.255.255.255", "::", "::1", "2001:db8::1",
                "fe80::1ff:fe23:4567:890a", "ffff:ffff:ffff:ffff:ffff:ffff:ffff:ffff", "::ffff:10.0.0.1"):
        na += 1
        ip = ipaddress.ip_address(lit)
        want = (b"\x00\x01" if ip.version == 4 else b"\x00\x02") + ip.packed
        try:
            a = HostIpAddressAVP(lit)
            ok = a.data == want and ipaddress.ip_address(a.get_ip_address()) == ip \
                and a.is_ipv4() == (ip.version == 4) and a.is_ipv6() == (ip.version == 6)
            got = a.data.hex()
        except BaseException as e:  # noqa
            ok, got = False, "raised %s" % type(e).__name__
        if not ok:
            bad_a.append({"literal": lit, "data": got, "want": want.hex()})
    return [("time-is-whole-seconds-since-1900", not bad_t, {"checked": nt, "failing": bad_t}),
            ("address-is-family-plus-packed-and-reads-back", not bad_a, {"checked": na, "failing": bad_a[:5]})]


time_and_address_small.bounded = "40 instants (8 dates x 5 microsecond parts), 11 address literals; native"
