"""C16 -- generated Session-Ids are unique for the life of the process and well formed.

History invariant: every (high, low) pair issued so far is lexicographically <= the handler's
current (init, id).  Each generation must move the state to a strictly greater pair and issue
exactly that pair, so all issued pairs are distinct; distinct pairs render to distinct strings
because the last three ';'-separated fields are ';'-free (meta-level argument, DESIGN.md).
The clock is havoc'd (any instant) under the named assumption A-CLOCK-MONO.
"""
from pyvc.api import contract, T
from pyvc.spec import implies, ghost_get, ghost_set, is_instance_of
import bromelia._internal_utils as IU
from bromelia.avps.ietf.rfc6733 import SessionIdAVP, AcctMultiSessionIdAVP

SH = IU.SessionHandler
STATE = {(SH, "init"): T.Int(lo=0), (SH, "id"): T.Int(lo=0)}


def snap():
    return ghost_set("init0", SH.init) and ghost_set("id0", SH.id) and ghost_set("clock_floor_s1900", SH.init)


def lex_greater(h, l, h0, l0):
    return h > h0 or (h == h0 and l > l0)


def same_second_reset(data, previous):
    """KNOWN FINDING region (KF-C16-reset): an identity switch whose reset happens in the clock
    second the handler already holds"""
    return previous is not None and previous.split(";")[0] != data and SH.init == ghost_get("init0")


@contract("bromelia._internal_utils.SessionHandler.get_session_id", prop="C16", name="fresh")
class _GetFresh:
    """generation from an identity string alone (SessionIdAVP('host'), typed messages)"""
    args = {"data": T.Str()}
    state = STATE
    setup_spec = snap
    at_calls = True
    returns = T.Str()

    def ensures_rfc6733_format(data, result):
        return result == data + ";" + str(SH.init) + ";" + str(SH.id) + ";bromelia"

    def ensures_strictly_later_pair(result):
        return lex_greater(SH.init, SH.id, ghost_get("init0"), ghost_get("id0")) and SH.init >= 0 and SH.id >= 0

    def control_counter_not_advanced(result):
        return SH.id == ghost_get("id0")


@contract("bromelia._internal_utils.SessionHandler.get_session_id", prop="C16", name="regenerate")
class _Regenerate:
    """regeneration on a bulk origin update: previous Session-Id given, identity kept or switched"""
    args = {"data": T.Str(), "previous": T.Str()}
    state = STATE
    setup_spec = snap

    def ensures_rfc6733_format(data, result):
        return result == data + ";" + str(SH.init) + ";" + str(SH.id) + ";bromelia"

    def ensures_strictly_later_pair(data, previous, result):
        return same_second_reset(data, previous) or \
            lex_greater(SH.init, SH.id, ghost_get("init0"), ghost_get("id0"))

    def ensures_state_non_negative():
        return SH.init >= 0 and SH.id >= 0

    def control_unmasked_is_refuted(data, previous, result):
        # the known finding itself: without the region mask the clause must fail
        return lex_greater(SH.init, SH.id, ghost_get("init0"), ghost_get("id0"))


def _avp_contracts(cls, path):
    @contract(path, prop="C16", name="from-identity")
    class _S:
        """built from an identity string: data is a freshly generated Session-Id starting with it"""
        args = {"data": T.Str(maxlen=1000000)}
        state = STATE
        setup_spec = snap

        def requires(data):
            # AVP Length is a 24-bit field; the rendered counters add at most a bounded suffix
            return SH.init < 10 ** 12 and SH.id < 10 ** 12 and len(data.encode("utf-8")) < 8000000

        def exceptional(exc):
            # only the 24-bit AVP Length ceiling (an identity of megabytes) may make construction fail
            return is_instance_of(exc, OverflowError)

        def ensures_generated(data, result):
            return result._data == (data + ";" + str(SH.init) + ";" + str(SH.id) + ";bromelia").encode("utf-8") \
                and lex_greater(SH.init, SH.id, ghost_get("init0"), ghost_get("id0"))

    @contract(path, prop="C16", name="from-bytes")
    class _B:
        """a Session-Id supplied as bytes is carried unchanged and consumes nothing"""
        args = {"data": T.Bytes(maxlen=16777000)}
        state = STATE
        setup_spec = snap

        def ensures_unchanged(data, result):
            return result._data == data and SH.init == ghost_get("init0") and SH.id == ghost_get("id0")


_avp_contracts(SessionIdAVP, "bromelia.avps.ietf.rfc6733.SessionIdAVP")
_avp_contracts(AcctMultiSessionIdAVP, "bromelia.avps.ietf.rfc6733.AcctMultiSessionIdAVP")
