"""C04 -- inbound messages are delivered once, in order, however the stream is fragmented.

Sequential skeleton under contract (interleavings of reader, receive worker, state machine and consumer
are NOT decided by this family):

  read        TcpConnection.read: bytes taken from the socket are appended to _recv_data_stream in order
              (received-so-far ++ still-in-the-kernel is invariant), the data-available flag is raised;
  worker      DiameterAssociation.recv_message_from_queue for chunks arriving at iteration boundaries
              (bounded: 1 or 2 chunks): every byte reaches the decoder exactly once and in order, what the
              decoder returns is queued in that order, the buffer is emptied, the lock is free afterwards;
              the decoder is only ever given MESSAGE-ALIGNED input (call-site precondition) -- this is the
              clause the tree does not satisfy for a message split across two reads (known finding);
  tick        Open.run hands an application message to the application queue exactly once (C06 contract);
  consumer    get_message / get_postprocess_recv_message return the head of the application queue (FIFO),
              never wait while a message is queued -- whatever the state of the ready flag -- and wait only
              when nothing is queued.
"""
from pyvc.api import contract, T
from pyvc.spec import implies, ghost_get, ghost_set, event_log, unbe, is_instance_of, any_bool
import bromelia.base as B
import bromelia.setup as S
import bromelia.transport as TR
from bromelia.exceptions import AVPParsingError, DiameterMessageError
from contracts.stubs import FakeSock, FakeSelector, FakeRecvEvent, FakeRecvTransport
from contracts.assoc import association, inbound, connection, base_messages
from contracts.c05_outbound import selector


# ------------------------------------------------------------------ read
def _rconn():
    return T.Obj(TR.TcpClient, idict={
        "_send_buffer": T.Const(b""), "data_stream": T.Const(b""), "send_data_stream_queued": T.Const(False),
        "_recv_buffer": T.Const(b""), "_recv_data_stream": T.Bytes(maxlen=64),
        "_recv_data_available": T.Sync("event", flag=T.Bool()), "write_mode_on": T.Sync("event"),
        "read_mode_on": T.Sync("event", flag=True), "lock": T.Sync("lock"),
        "sock": T.Obj(FakeSock, idict={"wire": T.Const(b""), "inbound": T.Bytes(maxlen=64), "failed": T.Const(False)}),
        "sock_id": T.Const("0"), "selector": selector(),
        "is_connected": T.Const(True), "_stop_threads": T.Const(False), "error_has_raised": T.Const(False),
        "events": T.ListOf(), "tracking_events_count": T.Const(0), "events_mask": T.Const(1)})


def snap_in(self):
    return ghost_set("in0", self._recv_data_stream + self.sock.inbound) and ghost_set("got0", self._recv_data_stream)


@contract("bromelia.transport.TcpConnection.read", prop="C04", name="_", also=("C06",))
class _Read:
    args = {"self": _rconn()}
    snapshot_spec = snap_in

    def ensures_a_failed_recv_is_the_peer_disconnect_signal(self):
        # whatever recv() raises (a reset by the peer included), nothing escapes -- the transport thread lives on
        # to close the socket -- and the state machine's peer-disconnect signal is raised (C06)
        return implies(self.sock.failed, self._stop_threads == True and self.error_has_raised == True)

    def ensures_bytes_appended_in_order_none_lost(self):
        return self._recv_data_stream + self.sock.inbound == ghost_get("in0") and len(self._recv_buffer) == 0

    def ensures_flag_raised_when_something_arrived(self):
        return implies(len(self._recv_data_stream) > len(ghost_get("got0")),
                       self._recv_data_available.st["flag"] == True)

    def exceptional(exc):
        return False

    def control_reads_everything(self):
        return len(self.sock.inbound) == 0


# ------------------------------------------------------------------ receive worker
def load_entry(stream):
    return ("decode", stream)


def load_result(stream, result):
    return ("decoded-messages", list(result))


def aligned(stream):
    """one whole message, or nothing: Message Length says exactly how many bytes there are"""
    if len(stream) < 20:
        return len(stream) == 0
    return stream[1] * 65536 + stream[2] * 256 + stream[3] == len(stream)


@contract("bromelia.base.DiameterMessage.load", prop="C04", name="at-call")
class _LoadAtCall:
    """summary used where the receive worker calls the decoder: a list of messages (0..2 here) or a
    library error (C03 proves that for every byte string); the decoder must be given message-aligned bytes"""
    args = {"stream": T.Bytes()}
    at_calls = True
    log_entry = load_entry
    log_result = load_result
    returns = T.OneOf(T.ListOf(), T.ListOf(inbound()), T.ListOf(inbound(), inbound()))
    raises = (AVPParsingError, DiameterMessageError)
    proof = "table"
    requires = aligned

    def interference(stream):
        # decoding takes time: the transport's reader thread may deliver the next chunk meanwhile
        ev = ghost_get("ev")
        if ev is not None and len(ev.chunks) > 0 and any_bool("chunk-arrives-while-decoding"):
            c = ev.chunks.pop(0)
            ev.assoc.transport._recv_data_stream = ev.assoc.transport._recv_data_stream + c
            ev.flag = True
        return True
    assumes = ("DiameterMessage.load returns a list of messages or raises a library error (C03); which messages it "
               "returns for which bytes is C02's subject",)


@contract("bromelia.setup.make_logging", prop="C04", name="summary")
class _SetupLogging:
    args = {"msg": inbound(), "disable_else": T.Bool()}
    at_calls = True
    returns = T.NoneS
    proof = "table"
    assumes = ("setup.make_logging only formats a debug line",)


def _worker_assoc(nchunks):
    ev = T.Obj(FakeRecvEvent, idict={"flag": T.Const(False), "assoc": T.NoneS, "waits": T.Const(0),
                                     "chunks": T.ListOf(*[T.Bytes(minlen=1, maxlen=48) for _ in range(nchunks)])})
    tr = T.Obj(FakeRecvTransport, idict={"_recv_data_stream": T.Const(b""), "_recv_data_available": ev})
    return association(mode=T.Const("SERVER"), recv=T.Sync("queue"), send=T.Sync("queue"), active=T.Const(True),
                       transport_shape=tr)


def link_worker(self):
    ev = self.transport._recv_data_available
    ev.assoc = self
    total = b""
    for c in ev.chunks:
        total = total + c
    return ghost_set("arrived", total) and ghost_set("chunks0", list(ev.chunks)) and ghost_set("ev", ev) \
        and ghost_set("rq_before", list(self._recv_messages.st["items"]))


def decoded(log):
    out = b""
    for e in log:
        if e[0] == "decode":
            out = out + e[1]
    return out


def _worker_contract(nchunks, whole):
    @contract("bromelia.setup.DiameterAssociation.recv_message_from_queue", prop="C04",
              name="%d-chunk%s" % (nchunks, "-message-aligned" if whole else ""), also=("C03",))
    class _W:
        args = {"self": _worker_assoc(nchunks)}
        setup_spec = link_worker
        bounded = "%d chunk(s) of 1..48 bytes arriving at iteration boundaries or while the decoder runs; decoder returns 0..2 messages" % nchunks
        max_paths = 3000
        samples = 0          # the decoder is an assumed summary here: nothing to run natively without its outcomes

        def requires(self):
            if not whole:
                return True
            ok = True
            for c in self.transport._recv_data_available.chunks:
                ok = ok and aligned(c)
            return ok

        def ensures_every_byte_decoded_once_in_order(self):
            return decoded(event_log()) == ghost_get("arrived") and len(self.transport._recv_data_stream) == 0

        def ensures_lock_free_afterwards(self):
            return self.lock.st["held"] == False

        def ensures_decoded_messages_queued_once_each_in_order(self):
            # what the state machine will consume: exactly the messages the decoder returned, call after call,
            # each once, in the order returned, behind whatever was queued before
            want = list(ghost_get("rq_before"))
            for e in event_log():
                if e[0] == "decoded-messages":
                    want = want + e[1]
            got = self._recv_messages.st["items"]
            ok = len(got) == len(want)
            if ok:
                for i in range(len(want)):
                    ok = ok and got[i] is want[i]
            return ok

        def exceptional(exc):
            return False
    return _W


_worker_contract(1, True)
_worker_contract(2, True)


@contract("bromelia.setup.DiameterAssociation.recv_message_from_queue", prop="C04", name="split-message")
class _WorkerSplit:
    """ONE message arriving in two reads (any split point): the decoder must still only see whole messages"""
    args = {"self": _worker_assoc(2)}
    setup_spec = link_worker
    bounded = "one message of up to 48 bytes split at any point into two chunks"
    max_paths = 3000
    samples = 0

    def requires(self):
        cs = self.transport._recv_data_available.chunks
        return aligned(cs[0] + cs[1])

    def ensures_every_byte_decoded_once_in_order(self):
        return decoded(event_log()) == ghost_get("arrived")

    def exceptional(exc):
        return False


# ------------------------------------------------------------------ consumer
def _app_assoc(items, flag):
    a = association(mode=T.Const("CLIENT"), recv=T.Sync("queue"), send=T.Sync("queue"), active=T.Const(True))
    a.idict["postprocess_recv_messages"] = T.Sync("queue", items=items, extra=True if items else None)
    a.idict["postprocess_recv_messages_ready"] = T.Sync("event", flag=flag)
    return a


def snap_pq(self):
    return ghost_set("pq0", list(self.postprocess_recv_messages.st["items"]))


@contract("bromelia.setup.DiameterAssociation.get_message", prop="C04", name="queued")
class _GetMessageQueued:
    """a queued message is returned at once -- also when the ready flag happens to be clear (the producer
    set it and the previous consumer call cleared it in between) -- first in, first out"""
    args = {"self": _app_assoc([inbound(), inbound()], T.Bool())}
    snapshot_spec = snap_pq

    def ensures_head_first(self, result):
        q0 = ghost_get("pq0")
        return result is q0[0] and self.postprocess_recv_messages.st["items"] == q0[1:] \
            and self.lock.st["held"] == False and self.postprocess_recv_messages_lock.st["held"] == False

    def exceptional(exc):
        return False


@contract("bromelia.setup.DiameterAssociation.get_message", prop="C04", name="nothing-queued")
class _GetMessageEmpty:
    args = {"self": _app_assoc([], T.Const(False))}

    def ensures_never_returns_a_message_out_of_nothing(self, result):
        return False

    def when_blocked(self):
        return self.lock.st["held"] == False and self.postprocess_recv_messages_lock.st["held"] == False


# ------------------------------------------------------------------ the logging helpers on the inbound path are total
#  They run inside the receive worker / the state machine tick with the association lock held: an exception while
#  FORMATTING a log line (the f-string is evaluated whether or not debug logging is on) would end that thread.
from bromelia.avps.ietf.rfc6733 import UserNameAVP                    # noqa: E402
import bromelia.statemachine as _SM                                   # noqa: E402
import bromelia.bromelia as _BB                                       # noqa: E402


def _msg_with_user_name(with_user):
    items, alias = [], {}
    if with_user:
        items.append(T.Obj(UserNameAVP, slots={"_flags": T.Bytes(1), "_data": T.Bytes(maxlen=64), "_vendor_id": T.NoneS,
                                               "_padding": T.NoneS},
                           idict={"code": T.Const(UserNameAVP.code), "vendor_id": T.NoneS}))
        alias["user_name_avp"] = ("_avps", 0)
    from contracts.common import header_shape
    return T.Obj(B.DiameterMessage, idict={"_header": header_shape(), "_avps": T.ListOf(*items), "_loaded": T.Const(True)},
                 alias=alias)


def _logging_total(target, prop, also, extra_args):
    for with_user in (True, False):
        @contract(target, prop=prop, name="total-%s" % ("user-name" if with_user else "plain"), also=also)
        class _L:
            """formatting the debug line never raises, whatever the message holds (User-Name data: ANY octets -- the
            decoder accepts them -- any header)"""
            args = dict({"msg": _msg_with_user_name(with_user)}, **extra_args)

            def ensures_returns_nothing(result):
                return result is None

            def exceptional(exc):
                return False


_logging_total("bromelia.setup.make_logging", "C04", ("C03",), {"disable_else": T.Bool()})
_logging_total("bromelia.statemachine.make_logging", "C06", ("C03",), {})
_logging_total("bromelia.bromelia.make_logging", "C13", ("C03",), {})
