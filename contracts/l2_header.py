"""L2 -- DiameterHeader: width-forcing setters, dump, load (C01 header part, C02 header decode)."""
from pyvc.api import contract, T
from pyvc.spec import implies, be, unbe, is_instance_of, lib_error, zeros
import bromelia.base as B
from bromelia.exceptions import DiameterHeaderAttributeValueError
from contracts.common import header_shape, enc_hdr, ANY_VALUE
from contracts.l2_avp import accepted, stored

FIELDS = [("version", 1, False), ("length", 3, True), ("flags", 1, False), ("command_code", 3, True),
          ("application_id", 4, True), ("hop_by_hop", 4, True), ("end_to_end", 4, True)]


def _hsetter(field, width, none_ok):
    target = "bromelia.base.DiameterHeader.%s.fset" % field
    slotname = "_" + field

    @contract(target, prop="C01", name="_")
    class _S:
        """in-range int -> big-endian of the field width; bytes of that width -> as is; anything else
        rejected with DiameterHeaderAttributeValueError and the field left untouched"""
        args = {"self": header_shape(), "value": ANY_VALUE()}

        def ensures_fixed_width(self, value):
            return accepted(value, width, none_ok) and stored(getattr(self, slotname), value, width)

        def ensures_frame(self, old):
            return others_unchanged(self, old.self, slotname)

        def exceptional(self, value, exc, old):
            return is_instance_of(exc, DiameterHeaderAttributeValueError) \
                and not accepted(value, width, none_ok) and getattr(self, slotname) == getattr(old.self, slotname)

        def control_int_stored_as_zero(self, value):
            return implies(isinstance(value, int), getattr(self, slotname) == zeros(width))
    return _S


def others_unchanged(h, h0, but):
    ok = True
    for name in ("_version", "_length", "_flags", "_command_code", "_application_id",
                 "_hop_by_hop", "_end_to_end"):
        if name != but:
            ok = ok and getattr(h, name) == getattr(h0, name)
    return ok


for _f, _w, _n in FIELDS:
    _hsetter(_f, _w, _n)


@contract("bromelia.base.DiameterHeader.dump", prop="C01", name="_")
class _HDump:
    """a header whose seven fields are set serialises to exactly the 20 bytes of RFC 6733 section 3"""
    args = {"self": header_shape()}
    at_calls = True
    returns = T.Bytes(20)

    def ensures_rfc6733(self, result):
        return result == enc_hdr(self._version, self._length, self._flags, self._command_code,
                                 self._application_id, self._hop_by_hop, self._end_to_end)

    def ensures_20_bytes(self, result):
        return len(result) == 20

    def ensures_frame(self, old):
        return others_unchanged(self, old.self, "")

    def control_swapped_ids(self, result):
        return result == enc_hdr(self._version, self._length, self._flags, self._command_code,
                                 self._application_id, self._end_to_end, self._hop_by_hop)


@contract("bromelia.base.DiameterHeader.load", prop="C02", name="_")
class _HLoad:
    """decoding 20 header bytes yields a header whose fields are the corresponding wire slices"""
    args = {"cls": T.Const(B.DiameterHeader, path="bromelia.base:DiameterHeader"), "stream": T.Bytes(20)}

    def ensures_fields_are_wire_slices(stream, result):
        return (result._version == stream[0:1] and result._length == stream[1:4]
                and result._flags == stream[4:5] and result._command_code == stream[5:8]
                and result._application_id == stream[8:12] and result._hop_by_hop == stream[12:16]
                and result._end_to_end == stream[16:20])

    def ensures_redump_identical(stream, result):
        return result.dump() == stream

    def control_length_dropped(stream, result):
        return result._length == be(20, 3)
