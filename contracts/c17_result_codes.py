"""C17 -- result-code class predicates agree with the numeric family for every code.

Spec (from the property statement): for a code n that is not a multiple of 1000, the k-family
predicate holds exactly when n // 1000 == k, through the integer predicates (all integers)
and through the answer-object predicates (all 2^32 Result-Code words); at most one holds.
"""
from pyvc.api import contract, T
from pyvc.spec import unbe
import bromelia.utils as U
from contracts.common import answer_with_result_code_shape


def _int_contract(k, fname):
    @contract("bromelia.utils." + fname, prop="C17", name="_")
    class _C:
        args = {"result_code": T.Int()}

        def requires(result_code):
            return result_code % 1000 != 0

        if k == 1:
            def ensures_family(result_code, result):
                return result == (result_code // 1000 == 1)

            def control_off_by_one(result_code, result):
                return result == (result_code // 1000 == 2)
        elif k == 2:
            def ensures_family(result_code, result):
                return result == (result_code // 1000 == 2)

            def control_off_by_one(result_code, result):
                return result == (result_code // 1000 == 3)
        elif k == 3:
            def ensures_family(result_code, result):
                return result == (result_code // 1000 == 3)

            def control_off_by_one(result_code, result):
                return result == (result_code // 1000 == 4)
        elif k == 4:
            def ensures_family(result_code, result):
                return result == (result_code // 1000 == 4)

            def control_off_by_one(result_code, result):
                return result == (result_code // 1000 == 5)
        else:
            def ensures_family(result_code, result):
                return result == (result_code // 1000 == 5)

            def control_off_by_one(result_code, result):
                return result == (result_code // 1000 == 6)
    return _C


for _k, _f in [(1, "is_result_code_family_1xxx"), (2, "is_result_code_family_2xxx"),
               (3, "is_result_code_family_3xxx"), (4, "is_result_code_family_4xxx"),
               (5, "is_result_code_family_5xxx")]:
    _int_contract(_k, _f)


def _answer_contract(k, fname):
    @contract("bromelia.utils." + fname, prop="C17", name="_")
    class _C:
        args = {"answer": answer_with_result_code_shape()}

        def requires(answer):
            return unbe(answer.result_code_avp.data) % 1000 != 0

        if k == 1:
            def ensures_family(answer, result):
                return result == (unbe(answer.result_code_avp.data) // 1000 == 1)
        elif k == 2:
            def ensures_family(answer, result):
                return result == (unbe(answer.result_code_avp.data) // 1000 == 2)
        elif k == 3:
            def ensures_family(answer, result):
                return result == (unbe(answer.result_code_avp.data) // 1000 == 3)
        elif k == 4:
            def ensures_family(answer, result):
                return result == (unbe(answer.result_code_avp.data) // 1000 == 4)
        else:
            def ensures_family(answer, result):
                return result == (unbe(answer.result_code_avp.data) // 1000 == 5)

        def control_always_false(answer, result):
            return result == False
    return _C


for _k, _f in [(1, "is_1xxx_informational"), (2, "is_2xxx_success"), (3, "is_3xxx_failure"),
               (4, "is_4xxx_failure"), (5, "is_5xxx_failure")]:
    _answer_contract(_k, _f)


def _all_int(n):
    return [U.is_result_code_family_1xxx(n), U.is_result_code_family_2xxx(n),
            U.is_result_code_family_3xxx(n), U.is_result_code_family_4xxx(n),
            U.is_result_code_family_5xxx(n)]


def _all_answer(answer):
    return [U.is_1xxx_informational(answer), U.is_2xxx_success(answer), U.is_3xxx_failure(answer),
            U.is_4xxx_failure(answer), U.is_5xxx_failure(answer)]


def count_true(flags):
    n = 0
    for f in flags:
        if f:
            n = n + 1
    return n


@contract("bromelia.utils.is_result_code_family_1xxx", prop="C17", name="exclusive-int")
class _ExclInt:
    """at most one integer family predicate holds, for every integer (multiples of 1000 included)"""
    args = {"n": T.Int()}

    def call(n):
        return _all_int(n)

    def ensures_at_most_one(result):
        return count_true(result) <= 1


@contract("bromelia.utils.is_1xxx_informational", prop="C17", name="exclusive-answer")
class _ExclAnswer:
    """at most one answer family predicate holds, for every 32-bit Result-Code word"""
    args = {"answer": answer_with_result_code_shape()}

    def call(answer):
        return _all_answer(answer)

    def ensures_at_most_one(result):
        return count_true(result) <= 1


# ------------------------------------------------------------------ bounded companion (never counted as proved)
from pyvc.api import table          # noqa: E402


def _native_answer(word):
    import bromelia.base as B
    from bromelia.avps import ResultCodeAVP
    rc = ResultCodeAVP(2001)
    rc._data = word.to_bytes(4, "big")
    a = B.DiameterAnswer.__new__(B.DiameterAnswer)
    a.__dict__.update({"_header": B.DiameterHeader(), "_avps": [rc], "_loaded": False, "result_code_avp": rc})
    return a


@table("small-codes", prop="C17")
def small_codes():
    """the contract clauses evaluated natively on the real predicates for every code 0..9999, codes around
    every multiple of 1000 up to 2^32 and a spread of large words; so that a rewrite the proof cannot follow
    is still checked, with the failing code in hand"""
    from pyvc.conform import conform
    codes = list(range(0, 10000)) + [k * 1000 + d for k in range(10, 70, 7) for d in (-1, 1, 999)] \
        + [2 ** 32 - 1, 2 ** 32 - 999, 2 ** 31 + 3001, 16777216 * 3 + 3005, 65536 * 5 + 5012]
    out = []
    for k, f in [(1, "is_result_code_family_1xxx"), (2, "is_result_code_family_2xxx"),
                 (3, "is_result_code_family_3xxx"), (4, "is_result_code_family_4xxx"),
                 (5, "is_result_code_family_5xxx")]:
        chk, skip, fails = conform("C17/utils." + f, ({"result_code": n} for n in codes + [-1, -999, -3001]))
        out.append((f, not fails and chk > 0, {"checked": chk, "failing": fails}))
    for k, f in [(1, "is_1xxx_informational"), (2, "is_2xxx_success"), (3, "is_3xxx_failure"),
                 (4, "is_4xxx_failure"), (5, "is_5xxx_failure")]:
        chk, skip, fails = conform("C17/utils." + f, ({"answer": _native_answer(n)} for n in codes))
        out.append((f, not fails and chk > 0, {"checked": chk, "failing": fails}))
    return out


small_codes.bounded = "codes 0..9999 plus boundary and large 32-bit words, native evaluation of the contract clauses"
