"""Bounded companions of the codec proofs (C01, C02, C03): the reference encoder of contracts/common.py
(the very spec function the proofs use) run natively against the REAL classes on an enumerated set of small
AVPs, messages and byte strings.  Never counted as proved.  Purpose: a rewrite of a codec function whose new
loops have no invariant leaves the proof undecided; a wrong byte on a small input is then still reported
with the input in hand.
"""
import itertools
import os

from pyvc.api import table
from contracts.common import enc_avp, enc_hdr


def _samples():
    codes = [b"\x00\x00\x00\x01", b"\x00\x00\x01\x07", b"\x00\x00\x02\x74", b"\xff\xff\xff\xfe"]
    flags = [b"\x00", b"\x40", b"\x20", b"\x60"]
    vendors = [None, b"\x00\x00\x28\xaf", b"\x00\x00\x00\x01"]
    datas = [b"", b"a", b"ab", b"abc", b"abcd", b"abcde", bytes(range(7)), bytes(range(8)), b"\x00" * 9, b"\xff" * 13]
    for c, f, v, d in itertools.product(codes, flags, vendors, datas):
        fl = bytes([f[0] | 0x80]) if v is not None else f
        yield c, fl, v, d


def _build(c, f, v, d):
    import bromelia.base as B
    kw = {"code": int.from_bytes(c, "big"), "flags": f[0], "data": d if d else None}
    if v is not None:
        kw["vendor_id"] = int.from_bytes(v, "big")
    return B.DiameterAVP(**kw)


@table("codec-small-inputs", prop="C01")
def codec_small_inputs_c01():
    """DiameterAVP.dump / DiameterMessage.dump == the RFC 6733 reference encoder for 480 generic AVPs (4 codes x
    4 flag bytes x 3 vendor choices x 10 data lengths 0..13) and for messages of 0..3 of them; AVP Length
    excludes padding; Message Length == total size"""
    import bromelia.base as B
    bad_avp, bad_msg, n = [], [], 0
    avps = []
    for c, f, v, d in _samples():
        n += 1
        try:
            a = _build(c, f, v, d)
            got = a.dump()
        except BaseException as e:  # noqa
            bad_avp.append((c.hex(), f.hex(), v and v.hex(), d.hex(), "raised " + type(e).__name__))
            continue
        want = enc_avp(c, f, v, d)
        if got != want or len(a) != (12 if v else 8) + len(d):
            bad_avp.append((c.hex(), f.hex(), v and v.hex(), d.hex(), got.hex(), want.hex()))
        avps.append(((c, f, v, d), want))
    nm = 0
    pick = avps[::37][:6]
    for k in range(0, 4):
        for combo in itertools.product(pick, repeat=k):
            nm += 1
            try:
                h = B.DiameterHeader(application_id=16777264, command_code=268, flags=0xc0,
                                     hop_by_hop=b"\x01\x02\x03\x04", end_to_end=b"\x0a\x0b\x0c\x0d")
                m = B.DiameterMessage(h, [_build(*p) for p, _ in combo])
                got = m.dump()
            except BaseException as e:  # noqa
                bad_msg.append((k, "raised " + type(e).__name__))
                continue
            body = b"".join(w for _, w in combo)
            want = enc_hdr(b"\x01", (20 + len(body)).to_bytes(3, "big"), b"\xc0", (268).to_bytes(3, "big"),
                           (16777264).to_bytes(4, "big"), b"\x01\x02\x03\x04", b"\x0a\x0b\x0c\x0d") + body
            if got != want:
                bad_msg.append((k, got.hex()[:80], want.hex()[:80]))
    # Message Length bookkeeping under append / pop / extend / refresh
    bad_len, nl = [], 0
    from bromelia.avps import UserNameAVP, OriginHostAVP, ProductNameAVP
    for d1, d2 in itertools.product(("u", "user5", "abcdefgh"), ("h", "host.example", "abc")):
        nl += 1
        try:
            h = B.DiameterHeader(application_id=16777264, command_code=268, flags=0xc0)
            m = B.DiameterMessage(h, [UserNameAVP(d1)])
            steps = [("initial", m.dump())]
            m.append(OriginHostAVP(d2))
            steps.append(("append", m.dump()))
            m.extend([ProductNameAVP(d1 + d2)])
            steps.append(("extend", m.dump()))
            m.pop("origin_host_avp")
            steps.append(("pop", m.dump()))
            m.pop("product_name_avp")
            steps.append(("pop", m.dump()))
            for what, w in steps:
                if int.from_bytes(w[1:4], "big") != len(w) or len(w) % 4:
                    bad_len.append((d1, d2, what, int.from_bytes(w[1:4], "big"), len(w)))
                    break
            if steps[-1][1] != steps[0][1]:
                bad_len.append((d1, d2, "append+extend+pop+pop does not restore the message"))
        except BaseException as e:  # noqa
            bad_len.append((d1, d2, "raised " + type(e).__name__))
    # ... and under cleanup() / replacing the AVP list, with REPEATED AVPs of one kind in the message
    from bromelia.avps import HostIpAddressAVP
    for reps, how in itertools.product((1, 2, 3), ("cleanup", "avps=")):
        nl += 1
        try:
            m = B.DiameterMessage(B.DiameterHeader(application_id=0, command_code=257, flags=0x80),
                                  [HostIpAddressAVP("10.0.0.%d" % (i + 1)) for i in range(reps)] + [UserNameAVP("u")])
            if how == "cleanup":
                m.cleanup()
                m.append(OriginHostAVP("host.example"))
            else:
                m.avps = [OriginHostAVP("host.example")]
            w = m.dump()
            if int.from_bytes(w[1:4], "big") != len(w) or len(m.avps) != 1:
                bad_len.append(("%d repeated AVPs" % reps, how, int.from_bytes(w[1:4], "big"), len(w)))
        except BaseException as e:  # noqa
            bad_len.append((reps, how, "raised " + type(e).__name__))
    # Grouped AVPs: data == concatenated member encodings, also with byte-identical members and nesting
    bad_grp, ng = [], 0
    from bromelia.avps import FailedAvpAVP
    kids = [(b"\xff\xff\xff\xfe", b"\x00", None, b"abc"), (b"\xff\xff\xff\xfd", b"\xc0", b"\x00\x00\x28\xaf", b"\x01\x02"),
            (b"\xff\xff\xff\xfe", b"\x00", None, b"abc")]
    for combo in [c for k in (1, 2, 3) for c in itertools.product(range(3), repeat=k)]:
        for nested in (False, True):
            ng += 1
            try:
                members = [_build(*kids[i]) for i in combo]
                want_data = b"".join(enc_avp(*kids[i]) for i in combo)
                if nested:
                    inner = FailedAvpAVP(members)
                    inner_enc = enc_avp((279).to_bytes(4, "big"), inner.flags, None, want_data)
                    g = FailedAvpAVP([inner, _build(*kids[combo[0]])])
                    want_data = inner_enc + enc_avp(*kids[combo[0]])
                else:
                    g = FailedAvpAVP(members)
                want = enc_avp((279).to_bytes(4, "big"), g.flags, None, want_data)
                if g.dump() != want:
                    bad_grp.append((combo, nested, g.dump().hex()[:100], want.hex()[:100]))
            except BaseException as e:  # noqa
                bad_grp.append((combo, nested, "raised " + type(e).__name__))
    return [("avp-dump-is-the-reference-encoding", not bad_avp, {"checked": n, "failing": bad_avp[:5]}),
            ("message-dump-is-header-then-avps", not bad_msg, {"checked": nm, "failing": bad_msg[:5]}),
            ("message-length-is-the-size-after-append-extend-pop", not bad_len, {"checked": nl, "failing": bad_len[:5]}),
            ("grouped-data-is-the-concatenated-member-encodings", not bad_grp, {"checked": ng, "failing": bad_grp[:5]})]


codec_small_inputs_c01.bounded = "480 generic AVPs (data length <= 13), messages of <= 3 AVPs; native run against the spec encoder"


@table("codec-small-inputs", prop="C02")
def codec_small_inputs_c02():
    """DiameterAVP.load on the reference encoding of 1..3 generic AVPs of UNREGISTERED codes (so the known
    flag-rewriting finding does not apply): one object per AVP, in order, same code / flags / vendor / data, and
    re-encoding reproduces the bytes; DiameterMessage.load(dump(m)) re-dumps identically"""
    import bromelia.base as B
    bad, n = [], 0
    pool = [(c, f, v, d) for c, f, v, d in _samples()
            if c in (b"\xff\xff\xff\xfe", b"\x00\x00\x02\x74") and (v is None or v != b"\x00\x00\x00\x01")]
    pool = [p for p in pool if p[0] == b"\xff\xff\xff\xfe"][::3]
    for k in (1, 2, 3):
        combos = itertools.product(pool, repeat=k) if k < 3 else itertools.product(pool[::5], repeat=3)
        for combo in combos:
            n += 1
            stream = b"".join(enc_avp(*p) for p in combo)
            try:
                objs = B.DiameterAVP.load(stream)
                ok = len(objs) == k and b"".join(o.dump() for o in objs) == stream and all(
                    o.code == p[0] and o.flags == p[1] and o.vendor_id == p[2] and (o.data or b"") == p[3]
                    for o, p in zip(objs, combo))
            except BaseException as e:  # noqa
                ok = False
                objs = "raised " + type(e).__name__
            if not ok:
                bad.append((stream.hex()[:120], str(objs)[:80]))
                if len(bad) > 5:
                    break
    # REGISTERED (vendor, code) pairs sent with their class's default flags (so the known flag finding does not
    # apply): dictionary class, data octet for octet as on the wire -- identities in absolute form (trailing dot),
    # text that is not ASCII, leading / trailing blanks and NULs included
    import bromelia.avps as _A
    reg = [(264, b"\x40", "OriginHostAVP", [b"host.example.com.", b"h", b" host ", b"host\x00"]),
           (296, b"\x40", "OriginRealmAVP", [b"example.", b"EXAMPLE.Com"]),
           (283, b"\x40", "DestinationRealmAVP", [b"example.com.", b"."]),
           (1, b"\x40", "UserNameAVP", [b"user.", b"\xc3\xa1lvaro", b"\xff\xfe"]),
           (263, b"\x40", "SessionIdAVP", [b"a.example;1;2", b"a.example.;1;2;x\xe9"]),
           (268, b"\x40", "ResultCodeAVP", [b"\x00\x00\x07\xd1", b"\x00\x00\x00\x00"])]
    for code, fl, cname, datas in reg:
        for d in datas:
            n += 1
            stream = enc_avp(code.to_bytes(4, "big"), fl, None, d)
            try:
                objs = B.DiameterAVP.load(stream)
                ok = len(objs) == 1 and type(objs[0]).__name__ == cname and (objs[0].data or b"") == d \
                    and objs[0].dump() == stream
            except BaseException as e:  # noqa
                ok, objs = False, "raised " + type(e).__name__
            if not ok:
                bad.append((stream.hex()[:120], str(objs)[:80]))
    # Grouped AVPs of a registered class (Failed-AVP, default flags so the known flag finding does not apply) whose
    # members are generic AVPs, some byte-identical, one level of nesting: every member survives, in order
    bad_g, ng = [], 0
    kids = [(b"\xff\xff\xff\xfe", b"\x00", None, b"abc"), (b"\xff\xff\xff\xfd", b"\xc0", b"\x00\x00\x28\xaf", b"\x01\x02"),
            (b"\xff\xff\xff\xfe", b"\x00", None, b"abc")]
    fa = (279).to_bytes(4, "big")
    for combo in [c for k in (1, 2, 3) for c in itertools.product(range(3), repeat=k)]:
        for nested in (False, True):
            ng += 1
            inner = b"".join(enc_avp(*kids[i]) for i in combo)
            data = enc_avp(fa, b"\x40", None, inner) + enc_avp(*kids[combo[-1]]) if nested else inner
            stream = enc_avp(fa, b"\x40", None, data)
            try:
                objs = B.DiameterAVP.load(stream)
                ok = len(objs) == 1 and objs[0].dump() == stream and type(objs[0]).__name__ == "FailedAvpAVP" \
                    and len(objs[0].avps) == (2 if nested else len(combo))
            except BaseException as e:  # noqa
                ok, objs = False, "raised " + type(e).__name__
            if not ok:
                bad_g.append((stream.hex()[:160], str(objs)[:80]))
    # streams of 1..3 MESSAGES with different headers and 0..2 AVPs each: one object per message, in order,
    # header fields as on the wire, each re-serialising to its own bytes
    bad_m, nm = [], 0
    hdrs = [(b"\x01", b"\x80", (316).to_bytes(3, "big"), (16777251).to_bytes(4, "big"), b"\x00\x00\x00\x01", b"\xaa\xbb\xcc\xdd"),
            (b"\x01", b"\x00", (280).to_bytes(3, "big"), (0).to_bytes(4, "big"), b"\xff\xff\xff\xff", b"\x00\x00\x00\x00"),
            (b"\x01", b"\x60", (8388620).to_bytes(3, "big"), (16777272).to_bytes(4, "big"), b"\x12\x34\x56\x78", b"\x9a\xbc\xde\xf0")]
    bodies = [b"", enc_avp(*pool[1]), enc_avp(*pool[2]) + enc_avp(*pool[5])]

    def wire(h, body):
        return enc_hdr(h[0], (20 + len(body)).to_bytes(3, "big"), h[1], h[2], h[3], h[4], h[5]) + body
    for k in (1, 2, 3):
        for combo in itertools.product(range(3), repeat=2 * k):
            nm += 1
            parts = [wire(hdrs[combo[2 * i]], bodies[combo[2 * i + 1]]) for i in range(k)]
            try:
                ms = B.DiameterMessage.load(b"".join(parts))
                ok = len(ms) == k and all(m.dump() == w for m, w in zip(ms, parts)) and all(
                    (m.header.version, m.header.flags, m.header.command_code, m.header.application_id,
                     m.header.hop_by_hop, m.header.end_to_end) == hdrs[combo[2 * i]] for i, m in enumerate(ms))
            except BaseException as e:  # noqa
                ok, ms = False, "raised " + type(e).__name__
            if not ok:
                bad_m.append((b"".join(parts).hex()[:160], str(ms)[:80]))
    return [("load-is-the-inverse-of-the-reference-encoder", not bad, {"checked": n, "failing": bad[:5]}),
            ("grouped-members-all-survive-in-order", not bad_g, {"checked": ng, "failing": bad_g[:5]}),
            ("one-message-object-per-encoded-message-in-order", not bad_m, {"checked": nm, "failing": bad_m[:5]})]


codec_small_inputs_c02.bounded = ("streams of 1..3 generic AVPs of unregistered codes (data length <= 13); Failed-AVP with <= 3 members "
                                  "(byte-identical ones included, one nesting level); streams of 1..3 messages; native")


@table("malformed-small-inputs", prop="C03")
def malformed_small_inputs():
    """DiameterAVP.load / DiameterMessage.load on truncations, length-field corruptions and single-byte flips
    of small valid encodings: returns or raises one of the library's own error types (termination is covered by
    a 3-second watch per input)"""
    import bromelia.base as B
    from pyvc.spec import lib_error
    from contracts.findings_regions import c03_known_region
    bad, n = [], 0
    base_avps = [enc_avp(b"\x00\x00\x01\x08", b"\x40", None, b"host.example"),
                 enc_avp(b"\x00\x00\x02\x74", b"\xc0", b"\x00\x00\x28\xaf", b"\x00\x00\x00\x07"),
                 enc_avp(b"\x00\x00\x01\x01", b"\x40", None, b"\x00\x01\x0a\x00\x00\x01")]
    hdr = enc_hdr(b"\x01", b"\x00\x00\x00", b"\x80", (257).to_bytes(3, "big"), b"\x00\x00\x00\x00",
                  b"\x00\x00\x00\x01", b"\x00\x00\x00\x02")
    msgs = []
    for k in (1, 2, 3):
        body = b"".join(base_avps[:k])
        msgs.append(hdr[:1] + (20 + len(body)).to_bytes(3, "big") + hdr[4:] + body)
    cases = []
    for s in base_avps + [base_avps[0] + base_avps[1]]:
        cases += [("avp", s[:i]) for i in range(len(s))]
        cases += [("avp", s[:5] + bytes([v]) + s[6:]) for v in (0, 1, 7, 8, 9, 255)]
        cases += [("avp", s[:7] + bytes([v]) + s[8:]) for v in (0, 1, 7, 8, 9, 11, 13, 255)]
        cases += [("avp", s[:i] + bytes([s[i] ^ 0xff]) + s[i + 1:]) for i in range(0, len(s), 3)]
    for s in msgs:
        cases += [("msg", s[:i]) for i in range(len(s))]
        cases += [("msg", s[:1] + v + s[4:]) for v in (b"\x00\x00\x00", b"\x00\x00\x13", b"\x00\x00\x14",
                                                        b"\x00\x00\x15", b"\xff\xff\xff")]
        cases += [("msg", s[:i] + bytes([s[i] ^ 0xff]) + s[i + 1:]) for i in range(0, len(s), 3)]
    import threading
    for kind, s in cases:
        n += 1
        box = {}

        def run(kind=kind, s=s):
            try:
                (B.DiameterAVP.load if kind == "avp" else B.DiameterMessage.load)(s)
            except BaseException as e:  # noqa
                box["exc"] = e
            box["done"] = True
        th = threading.Thread(target=run, daemon=True)
        th.start()
        th.join(3)
        if not box.get("done"):
            bad.append((kind, s.hex()[:100], "still decoding after 3 s"))
            break                       # the stuck thread dies with this task's process
        e = box.get("exc")
        if e is not None and not lib_error(e) and not c03_known_region(e):
            bad.append((kind, s.hex()[:100], type(e).__name__))
    return [("only-library-errors-on-corrupted-small-inputs", not bad, {"checked": n, "failing": bad[:6]})]


malformed_small_inputs.bounded = "truncations / length corruptions / byte flips of 7 small encodings (about 900 inputs); native"
