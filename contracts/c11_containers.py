"""C11 -- a message's named AVP view, AVP list and length stay coherent under mutation.

Two parts:
  * (deductive, unbounded) list / length effect of the container operations on an abstract message
    with a symbolic AVP list: append, extend, refresh, __init__ (C01 contracts, reported there) and
    pop (below);
  * (BOUNDED stand-in, never counted as proved) the name map: the suffix scheme quantifies over all
    keys containing the base key as a substring, which neither solver decided.  Exhaustive
    enumeration of operation sequences on the REAL classes over a small AVP alphabet (equal-valued
    AVPs, unknown codes, a name contained in another name), the representation invariant evaluated
    natively after every operation.
"""
import itertools
import os

from pyvc.api import table
import bromelia.base as B
from bromelia.avps.ietf.rfc6733 import (OriginHostAVP, ResultCodeAVP, ProxyStateAVP, ExperimentalResultCodeAVP,
                                         VendorSpecificApplicationIdAVP, VendorIdAVP, AuthApplicationIdAVP)
from bromelia.constants import DIAMETER_SUCCESS, VENDOR_ID_3GPP, DIAMETER_APPLICATION_DEFAULT

ALPHABET = {
    "A1": lambda: OriginHostAVP("a"), "A2": lambda: OriginHostAVP("a"),      # equal-valued, distinct objects
    "R": lambda: ResultCodeAVP(DIAMETER_SUCCESS),
    "E": lambda: ExperimentalResultCodeAVP(DIAMETER_SUCCESS),                 # its name CONTAINS 'result_code'
    "U1": lambda: B.DiameterAVP(code=60001, data=b"x"),                       # unknown codes: same name 'unknown'
    "U2": lambda: B.DiameterAVP(code=60002, data=b"yy"),
    "P": lambda: ProxyStateAVP(b"abc"),                                       # needs padding
    "B": lambda: B.DiameterAVP(code=101, data=b"\x00\x00\x00\x01"),           # dictionary name with a BLANK in it
    # opaque data that happens to CONTAIN the encoding of another alphabet member (A1/A2) and of R
    "Q": lambda: ProxyStateAVP(OriginHostAVP("a").dump() + ResultCodeAVP(DIAMETER_SUCCESS).dump()),
}


def names_of(m):
    return {k: v for k, v in m.__dict__.items() if "_avp" in k and k != "_avps"}


def coherent(m, expected):
    """representation invariant; `expected` = the objects a list-based reference container holds, in order"""
    problems = []
    listed = list(m._avps)
    if [id(x) for x in listed] != [id(x) for x in expected]:
        problems.append("list differs from the reference container (order/identity)")
    names = names_of(m)
    for k, v in names.items():
        if not any(v is x for x in listed):
            problems.append("name %s refers to an unlisted AVP" % k)
        if not m.has_avp(k):
            problems.append("has_avp(%r) is False for an existing name" % k)
    done_ids = set()
    for x in listed:
        if id(x) in done_ids:
            continue
        done_ids.add(id(x))
        n = sum(1 for v in names.values() if v is x)
        k = sum(1 for y in listed if y is x)          # the same object may legally be listed more than once
        if n != k:
            problems.append("AVP code %d is listed %d time(s) but has %d name(s)" % (x.get_code(), k, n))
    if m.has_avp("no_such_thing_avp"):
        problems.append("has_avp true for an absent name")
    if isinstance(m, B.DiameterMessage):
        if m.header.get_length() != len(m.dump()):
            problems.append("Message Length %d != %d bytes" % (m.header.get_length(), len(m.dump())))
    else:
        # a Grouped AVP: its data is the concatenation of its members' encodings, its AVP Length follows
        want = b"".join(x.dump() for x in listed)
        if (m.data or b"") != want:
            problems.append("Grouped data (%d bytes) is not the concatenated member encodings (%d bytes)"
                            % (len(m.data or b""), len(want)))
        elif m.get_length() != 8 + len(want) or len(m.dump()) != 8 + len(want):
            problems.append("Grouped AVP Length %d / dump %d != %d" % (m.get_length(), len(m.dump()), 8 + len(want)))
    return problems


def ops_for(m, expected, pool):
    """operations applicable in the current state: (label, apply(m, expected) -> new expected)"""
    out = []
    for a in sorted(ALPHABET):
        def do_append(m, exp, a=a):
            x = ALPHABET[a]()
            m.append(x)
            return exp + [x]
        out.append(("append(%s)" % a, do_append))
    if expected:
        # the SAME object appended once more (legal: it is then listed twice, under two names)
        def do_append_again(m, exp):
            m.append(exp[0])
            return exp + [exp[0]]
        out.append(("again()", do_append_again))
    for k in sorted(names_of(m)):
        def do_pop(m, exp, k=k):
            x = m.__dict__[k]
            m.pop(k)
            out_, dropped = [], False
            for y in exp:                       # exactly ONE position leaves the reference container
                if y is x and not dropped:
                    dropped = True
                else:
                    out_.append(y)
            return out_
        out.append(("pop(%s)" % k, do_pop))
    def do_cleanup(m, exp):
        m.cleanup()
        return []
    out.append(("cleanup()", do_cleanup))
    def do_refresh(m, exp):
        m.refresh()
        return exp
    if isinstance(m, B.DiameterMessage):
        # (GroupedType.refresh is not part of the property -- C11 is about messages, its anchors name
        # GroupedType.append/pop/cleanup -- and is dead on the pinned tree: it assigns to a non-existent
        # `self.header` and raises AttributeError whenever it has anything to do; noted in DESIGN.md)
        out.append(("refresh()", do_refresh))
    for pair in (("A1", "R"), ("U1", "U2")):
        def do_extend(m, exp, pair=pair):
            xs = [ALPHABET[p]() for p in pair]
            m.extend(xs)
            return exp + xs
        out.append(("extend(%s,%s)" % pair, do_extend))
        def do_set(m, exp, pair=pair):
            xs = [ALPHABET[p]() for p in pair]
            m.avps = xs
            return xs
        out.append(("avps=[%s,%s]" % pair, do_set))
    ks = sorted(names_of(m))
    if ks:
        def do_rename(m, exp, k=ks[0]):
            m.update_key(k, "renamed_avp")
            return exp
        if "renamed_avp" not in m.__dict__:
            out.append(("update_key(%s)" % ks[0], do_rename))
        # a caller-chosen key that merely CONTAINS the '_avp' marker (the library's own convention for "is a
        # named AVP": '"_avp" in key'), e.g. '<name>_avp_primary'
        def do_rename2(m, exp, k=ks[-1]):
            m.update_key(k, k + "_primary")
            return exp
        if not ks[-1].endswith("_primary"):
            out.append(("update_key(%s,+_primary)" % ks[-1], do_rename2))
    return out


# known findings: histories the pinned tree already gets wrong (replayed, masked by these predicates)
def kf_pop_equal_earlier(label, m, expected):
    """pop() of an AVP while an EARLIER listed AVP has the same encoding: list.remove drops the earlier one"""
    if not label.startswith("pop("):
        return False
    k = label[4:-1]
    x = m.__dict__.get(k)
    if x is None:
        return False
    for y in m._avps:
        if y is x:
            return False
        if y.dump() == x.dump():
            return True
    return False


def _base_key(x):
    name = B.loader.get_avp_class_name(x)
    if name == "Unknown":
        from bromelia._internal_utils import avp_look_up
        name = avp_look_up(x)
    return name.replace("-", "_").lower() + "_avp"


def kf_suffix_reuse(label, m, expected):
    """append of an AVP whose generated key '<base>__<count>' already exists (a suffixed name was
    popped earlier, so the count points at a live key): the live entry is overwritten and its AVP
    stays listed without a name"""
    if label == "again()":
        news = [expected[0]] if expected else []
    elif label.startswith("append("):
        news = [ALPHABET[label[7:-1]]()]
    elif label.startswith("extend(") or label.startswith("avps=["):
        inner = label[label.index("(") + 1:-1] if label.startswith("extend(") else label[6:-1]
        news = [ALPHABET[p]() for p in inner.split(",")]
    else:
        return False
    keys = [] if label.startswith("avps=[") else list(m.__dict__.keys())
    for x in news:
        base = _base_key(x)
        key = base
        if base in keys:
            key = "%s__%d" % (base, sum(1 for k in keys if base in k))
            if key in keys:
                return True
        keys.append(key)
    return False


def _new_message():
    return B.DiameterMessage()


def _new_grouped():
    from bromelia.avps import FailedAvpAVP
    g = FailedAvpAVP([B.DiameterAVP(code=60009, data=b"seed")])
    g.cleanup()
    return g


def run_sequences(depth, report_limit=5, make=_new_message):
    failures, known, nseq, nops = [], 0, 0, 0
    tainted_prefixes = set()

    def rec(history, depth_left):
        nonlocal known, nseq, nops
        # rebuild the state by replaying the history on fresh real objects
        m = make()
        exp = []
        for lbl in history:
            f = dict(ops_for(m, exp, None))[lbl]
            exp = f(m, exp)
        if depth_left == 0:
            nseq += 1
            return
        for lbl, f in ops_for(m, exp, None):
            m2 = make()
            e2 = []
            for h in history:
                e2 = dict(ops_for(m2, e2, None))[h](m2, e2)
            if kf_pop_equal_earlier(lbl, m2, e2) or kf_suffix_reuse(lbl, m2, e2):
                known += 1
                continue
            try:
                e3 = dict(ops_for(m2, e2, None))[lbl](m2, e2)
                probs = coherent(m2, e3)
            except BaseException as ex:  # noqa
                probs = ["%s raised %s: %s" % (lbl, type(ex).__name__, ex)]
            nops += 1
            if probs:
                if len(failures) < 60:
                    failures.append((history + [lbl], probs[:3]))
                continue                     # do not extend an already incoherent history
            rec(history + [lbl], depth_left - 1)
    rec([], depth)
    return failures, known, nseq, nops


@table("name-map-coherence", prop="C11")
def name_map_coherence():
    depth = 4 if os.environ.get("VERIF_TIER") == "thorough" else 3
    failures, known, nseq, nops = run_sequences(depth)
    from collections import Counter
    kinds = Counter(f[1][0].split(" (")[0][:60] for f in failures)
    detail = {"depth": depth, "operations_checked": nops, "known_finding_histories_skipped": known,
              "failing": [{"history": h, "problems": p} for h, p in failures[:6]], "kinds": dict(kinds)}
    return [("coherent-after-every-operation-sequence", not failures, detail)]


@table("grouped-name-map-coherence", prop="C11", also=("C01",))
def grouped_name_map_coherence():
    """the same campaign on a Grouped AVP (Failed-AVP): GroupedType.append / extend / pop / cleanup / avps= /
    update_key keep names, member list and the Grouped data (== concatenated member encodings)
    coherent; the known pop-equal / suffix-reuse histories are the same code pattern and are skipped"""
    depth = 4 if os.environ.get("VERIF_TIER") == "thorough" else 3
    failures, known, nseq, nops = run_sequences(depth, make=_new_grouped)
    detail = {"depth": depth, "operations_checked": nops, "known_finding_histories_skipped": known,
              "failing": [{"history": h, "problems": p} for h, p in failures[:6]]}
    return [("grouped-coherent-after-every-operation-sequence", not failures, detail)]


grouped_name_map_coherence.bounded = ("operation sequences of length <= 3 (quick) / 4 (thorough) on a Grouped AVP over the "
                                      "8-AVP alphabet; native run-time evaluation of the representation invariant")

name_map_coherence.bounded = ("operation sequences of length <= 3 (quick) / 4 (thorough) over a 9-AVP alphabet, "
                              "on the real classes (native run-time evaluation of the representation invariant)")


@table("bulk-update-positions", prop="C11")
def bulk_update_positions():
    """update_avps({name: value}) on messages holding 1..3 AVPs of one kind -- equal-valued ones included --
    between other AVPs: exactly the ADDRESSED list position carries the new value afterwards, every other
    position keeps its bytes, the order is unchanged, the name yields the new value, and Message Length is
    the serialised size.  (That the name and the list then hold two different OBJECTS is the known finding
    KF-C11-update-avp and is not re-judged here: values and positions are.)"""
    import itertools as _it
    from bromelia.avps import HostIpAddressAVP, SupportedVendorIdAVP, UserNameAVP
    bad, n = [], 0
    kinds = [("host_ip_address", HostIpAddressAVP, ["10.0.0.1", "10.0.0.1", "10.0.0.2"], "10.9.9.9"),
             ("supported_vendor_id", SupportedVendorIdAVP, [10415, 10415, 10415], 193)]
    for base, cls, vals, new in kinds:
        for k in (1, 2, 3):
            for j in range(k):
                for lead in (False, True):
                    n += 1
                    try:
                        items = ([UserNameAVP("u")] if lead else []) + [cls(v) for v in vals[:k]] + [OriginHostAVP("h")]
                        m = B.DiameterMessage(B.DiameterHeader(), list(items))
                        before = [a.dump() for a in m.avps]
                        key = base if j == 0 else "%s__%d" % (base, j)
                        m.update_avps({key: new})
                        after = [a.dump() for a in m.avps]
                        pos = j + (1 if lead else 0)
                        want = list(before)
                        want[pos] = cls(new).dump()
                        named = getattr(m, get_name(base, j))
                        ok = after == want and named.dump() == want[pos] and m.header.get_length() == len(m.dump())
                    except BaseException as e:  # noqa
                        ok, after, want = False, "raised %s" % type(e).__name__, None
                    if not ok:
                        bad.append({"kind": base, "count": k, "addressed": j, "lead": lead,
                                    "after": [x.hex() if isinstance(x, bytes) else x for x in after] if isinstance(after, list) else after,
                                    "want": [x.hex() for x in want] if want else None})
    return [("exactly-the-addressed-position-is-rewritten", not bad, {"checked": n, "failing": bad[:4]})]


def get_name(base, j):
    return "%s_avp" % base if j == 0 else "%s_avp__%d" % (base, j)


bulk_update_positions.bounded = "1..3 AVPs of one kind (equal values included), each position addressed once; native"


# =========================================================================================
#  deductive part: pop on an abstract message (any AVP list, any other names)
# =========================================================================================
import z3                                                             # noqa: E402
from pyvc.api import contract, T                                      # noqa: E402
from pyvc.spec import implies, unbe, use_lemma, ghost_get, is_instance_of, proved   # noqa: E402
from pyvc.values import SSeq, RSEQ                                    # noqa: E402
from bromelia.exceptions import DiameterMessageError                  # noqa: E402
from contracts.common import (msg_shape, any_avp_shape, AVP_ELEM, slen, cat, cat_len, avp_plen, view_vendor,     # noqa: E402
                              data_of, enc_of, MAX24)


def _place_victim(ctx, ns):
    """the named AVP `victim_avp` is a member of the list: _avps == before ++ [victim] ++ after"""
    m, x = ns["self"], ns["victim"]
    r = AVP_ELEM.adopt(ctx, x)
    pre = z3.Const("pop.before", RSEQ)
    post = z3.Const("pop.after", RSEQ)
    seq = m.idict.known["_avps"]
    ctx.assume_raw(seq.term == z3.Concat(pre, z3.Unit(r), post))
    spre, spost = SSeq(pre, AVP_ELEM, ("var",)), SSeq(post, AVP_ELEM, ("var",))
    unit = SSeq(z3.Unit(r), AVP_ELEM, ("snoc", SSeq(z3.Empty(RSEQ), AVP_ELEM, ("empty",)), x))
    seq.struct = ("concat", SSeq(z3.Concat(pre, z3.Unit(r)), AVP_ELEM, ("concat", spre, unit)), spost)
    ctx.ghost["pop_pre"], ctx.ghost["pop_post"] = spre, spost
    m.idict.set(ctx, "victim_avp", x)
    ns["avp_key"] = "victim_avp"


def _len_ok(m):
    return unbe(m._header._length) == 20 + slen(m._avps)


@contract("bromelia.base.DiameterMessage.pop", prop="C11", name="list-and-length", also=("C01",))
class _Pop:
    """pop(name) on ANY message that lists the named AVP: exactly one element leaves the list, the
    others keep their relative order, the removed element encodes like the named AVP, and Message
    Length drops by that AVP's on-wire size (length + padding) -- so a consistent length stays
    consistent.  (WHICH of several equal-encoded AVPs leaves is the known finding KF-C11-pop-equal.)"""
    args = {"self": msg_shape(loaded=T.Const(False)), "victim": any_avp_shape(), "avp_key": T.Const("victim_avp")}
    setup = _place_victim

    def requires(self, victim):
        return use_lemma(cat_len, ghost_get("pop_pre")) and use_lemma(cat_len, ghost_get("pop_post")) \
            and use_lemma(cat_len, self._avps) and unbe(self._header._length) >= 20 + slen(self._avps) \
            and unbe(self._header._length) < MAX24 and avp_plen(view_vendor(victim), data_of(victim)) < MAX24

    def call(self, avp_key):
        return self.pop(avp_key)

    def ensures_one_element_leaves_order_kept(self, old):
        a, b, y = ghost_get("rm_before"), ghost_get("rm_after"), ghost_get("rm_removed")
        return self._avps == a + b and old.self._avps == a + [y] + b

    def ensures_removed_encodes_like_the_named(self, victim):
        return enc_of(ghost_get("rm_removed")) == enc_of(victim)

    def ensures_length_drops_by_wire_size(self, victim, old):
        return unbe(self._header._length) == unbe(old.self._header._length) - avp_plen(view_vendor(victim), data_of(victim))

    def ensures_consistent_length_stays_consistent(self, victim, old):
        y = ghost_get("rm_removed")
        return use_lemma(cat_len, ghost_get("rm_before")) and use_lemma(cat_len, ghost_get("rm_after")) \
            and proved(len(enc_of(y)) == avp_plen(view_vendor(y), data_of(y)), "wire-size-of-removed") \
            and proved(len(enc_of(victim)) == avp_plen(view_vendor(victim), data_of(victim)), "wire-size-of-named") \
            and proved(len(enc_of(y)) == len(enc_of(victim)), "same-encoding-same-size") \
            and proved(slen(ghost_get("rm_old")) == slen(ghost_get("rm_before")) + avp_plen(view_vendor(y), data_of(y))
                       + slen(ghost_get("rm_after")), "old-list-size-splits") \
            and proved(slen(self._avps) == slen(ghost_get("rm_before")) + slen(ghost_get("rm_after")), "new-list-size") \
            and implies(unbe(old.self._header._length) == 20 + slen(ghost_get("rm_old")), _len_ok(self))

    def ensures_name_gone(self):
        return not ("victim_avp" in self.__dict__)

    def exceptional(exc):
        return False

    def control_padding_forgotten(self, victim, old):
        return unbe(self._header._length) == unbe(old.self._header._length) - 8 - len(data_of(victim))
