"""run-time twins of known-finding regions used by bounded companions"""


def c03_known_region(exc):
    # KF-C03-uri-utf8: UnicodeDecodeError from DiameterURI data is a recorded finding, reported on its own
    return isinstance(exc, UnicodeDecodeError)
