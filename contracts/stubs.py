"""Python models of the operating-system objects the transport talks to.  They are ordinary classes:
the verifier interprets them symbolically (environment choices through spec.any_bool / any_int), the
native replay runs them as they are with the choices the counterexample made.

FakeSock.wire is GHOST state: every byte the kernel accepted, in order -- the observable of C05.
"""
from pyvc.spec import any_bool, any_int


class FakeSock(object):
    def __init__(self):
        self.wire = b""
        self.inbound = b""
        self.failed = False       # GHOST: a recv() has failed (connection reset by the peer)

    def send(self, buf):
        if any_bool("send-would-block"):
            raise BlockingIOError()
        n = any_int("sent", 0, len(buf))
        self.wire = self.wire + buf[:n]
        return n

    def recv(self, bufsize):
        if any_bool("recv-fails"):
            self.failed = True
            raise ConnectionResetError()
        n = any_int("received", 0, len(self.inbound))
        data = self.inbound[:n]
        self.inbound = self.inbound[n:]
        return data


class FakeKey(object):
    def __init__(self, data):
        self.data = data


class FakeSelector(object):
    """selectors.DefaultSelector for ONE registered socket: modify() replaces mask and attached data;
    select() reports any subset of the registered events and hands out the key with the data that is
    attached at that moment (attached data stays attached until the next modify(), as in the real one).
    GHOST: `undelivered` is True from modify(data=...) until select() has handed that data out once."""

    def __init__(self):
        self.mask = 1
        self.data = None
        self.undelivered = False
        self.rounds = 0
        self.conn = None

    def modify(self, sock, events, data=None):
        self.mask = events
        self.data = data
        self.undelivered = data is not None

    def select(self, timeout=None):
        self.rounds = self.rounds - 1
        if self.rounds < 0:
            self.conn._stop_threads = True        # the harness ends the event loop after the given rounds
            return []
        ready = 0
        if self.mask & 1 and any_bool("readable"):
            ready = ready | 1
        if self.mask & 2 and any_bool("writable"):
            ready = ready | 2
        if ready == 0:
            return []
        self.undelivered = False
        return [(FakeKey(self.data), ready)]


class FakeRecvEvent(object):
    """TcpConnection._recv_data_available as the receive worker sees it, plus the harness: every wait()
    first lets the reader thread deliver the next chunk (GHOST list `chunks`) into the transport's
    buffer -- i.e. arrivals are interleaved at iteration boundaries of the worker -- and ends the worker
    loop once all chunks have been handed out and looked at."""

    def __init__(self):
        self.flag = False
        self.chunks = []
        self.assoc = None
        self.waits = 0

    def wait(self, timeout=None):
        self.waits = self.waits + 1
        if self.chunks:
            c = self.chunks.pop(0)
            self.assoc.transport._recv_data_stream = self.assoc.transport._recv_data_stream + c
            self.flag = True
        else:
            self.assoc._stop_threads = True
        return self.flag

    def clear(self):
        self.flag = False

    def set(self):
        self.flag = True


class FakeRecvTransport(object):
    def __init__(self):
        self._recv_data_stream = b""
        self._recv_data_available = None


class FakeThread(object):
    """a handler thread as the dispatcher loop sees it: `done` (a modelled Event) is set when the thread has
    finished -- possibly never, e.g. a route function that itself waits for an answer the dispatcher has yet to
    deliver; is_alive() reads it, join() WAITS for it (so joining a live thread blocks the caller)"""

    def __init__(self):
        self.done = None

    def is_alive(self):
        return not self.done.is_set()

    def join(self, timeout=None):
        self.done.wait()
