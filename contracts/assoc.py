"""Shapes shared by the peer-state-machine contracts (C06, C07): a DiameterAssociation as ONE thread of
control sees it.

  * connection: the real Connection/LocalNode/PeerNode named tuples, symbolic host names and realms,
    client or server role (typed cases);
  * base: the six shared template messages (real classes CER/CEA/DWR/DWA/DPR/DPA), any identifiers;
  * transport: an instance of the real TcpClient class built field by field (no socket), whose
    `_set_selector_events_mask` / `test_connection` / `close` are abstracted by contracts below;
  * the four queues / locks / events: the single-thread models of extmodels.SSync.  The received
    queue is `[head] + an unknown number of further messages` (or empty); the tail is never inspected.
"""
from pyvc.api import T
import bromelia.base as B
import bromelia.setup as S
import bromelia.proxy as PX
import bromelia.transport as TR
import bromelia.messages as M
from bromelia._internal_utils import Connection, LocalNode, PeerNode
from contracts.common import header_shape

CMD_CE, CMD_DW, CMD_DP = (257).to_bytes(3, "big"), (280).to_bytes(3, "big"), (282).to_bytes(3, "big")


def connection(mode=None):
    return T.NTuple(Connection, name=T.Const("bromelia"),
                    mode=mode or T.OneOf(T.Const("CLIENT"), T.Const("SERVER")),
                    transport_type=T.Const("TCP"),
                    local_node=T.NTuple(LocalNode, host_name=T.Str(minlen=1, maxlen=64),
                                        realm=T.Str(minlen=1, maxlen=64),
                                        ip_address=T.Const("10.0.0.1"), port=T.Const(3868)),
                    peer_node=T.NTuple(PeerNode, host_name=T.Str(minlen=1, maxlen=64),
                                       realm=T.Str(minlen=1, maxlen=64),
                                       ip_address=T.Const("10.0.0.2"), port=T.Const(3868)),
                    application_ids=T.Const([]), watchdog_timeout=T.Int(lo=1, hi=3600))


def template(cls, cmd, request):
    """a shared base message: its command code and R bit are what the constructor fixed (the
    load_* contracts of C07 prove that), identifiers arbitrary (left over from earlier exchanges)"""
    flags = T.OneOf(T.Const(b"\x80")) if request else T.OneOf(T.Const(b"\x00"))
    return T.Obj(cls, idict={"_header": header_shape(_command_code=T.Const(cmd), _flags=flags),
                             "_avps": T.ListOf(), "_loaded": T.Const(False)})


def base_messages():
    return T.Obj(PX.BaseMessages, idict={
        "cer": template(M.CER, CMD_CE, True), "cea": template(M.CEA, CMD_CE, False),
        "dwr": template(M.DWR, CMD_DW, True), "dwa": template(M.DWA, CMD_DW, False),
        "dpr": template(M.DPR, CMD_DP, True), "dpa": template(M.DPA, CMD_DP, False)})


def transport(mask=None):
    """`events_mask` 1 = read only, 3 = a write is in progress (the transport thread has not finished writing
    the previous stream): contracts that must hold whatever the transport is doing pass both"""
    return T.Obj(TR.TcpClient, idict={
        "is_connected": T.Const(True), "_stop_threads": T.Bool(),
        "events": T.OneOf(T.ListOf(), T.ListOf(T.OpaqueS())),
        "tracking_events_count": T.Int(lo=0, hi=100000),
        "events_mask": mask if mask is not None else T.Const(1),
        "write_mode_on": T.Sync("event", flag=True), "read_mode_on": T.Sync("event", flag=True)})


def inbound(flags=None, cmd=None):
    """a received message: any header of the given kind; its AVPs are only looked at by the validators,
    which are abstracted by contracts (valid / not valid)"""
    h = {}
    if flags is not None:
        h["_flags"] = flags
    if cmd is not None:
        h["_command_code"] = cmd
    return T.Obj(B.DiameterMessage, idict={"_header": header_shape(**h), "_avps": T.ListOf(),
                                           "_loaded": T.Const(True)})


def association(mode=None, recv=None, send=None, active=None, transport_shape=None):
    """recv / send: lists of shapes for the known heads of the queues (None = typed cases empty /
    one message + unknown tail)"""
    return T.Obj(S.DiameterAssociation, idict={
        "connection": connection(mode), "base": base_messages(),
        "state_is_active": active if active is not None else T.Bool(),
        "transport": transport_shape or transport(),
        "error_has_raised": T.Const(False), "_stop_threads": T.Const(False),
        "num_answers": T.Int(lo=0), "num_requests": T.Int(lo=0),
        "watchdog_timeout": T.Int(lo=1, hi=3600), "tracking_events_count": T.Const(0),
        "end_to_end_identifiers": T.ListOf(), "pending_requests": T.DictOf2({}),
        "_recv_messages": recv if recv is not None else T.OneOf(
            T.Sync("queue"), T.Sync("queue", items=[inbound()], extra=True)),
        "_send_messages": send if send is not None else T.Sync("queue", extra=True),
        "postprocess_recv_messages": T.Sync("queue"),
        "postprocess_recv_messages_ready": T.Sync("event"),
        "postprocess_recv_messages_lock": T.Sync("lock"),
        "lock": T.Sync("lock")})
