"""C07 -- base-protocol answers echo the identifiers of the request they answer.

Decomposition (every piece is a contract on the real function, proved for all identifier values):

  1. templates      DiameterBaseProxy.load_cea / load_dwa / load_dpa build an answer of the right command
                    code with the R bit clear, the local Origin-Host / Origin-Realm and a Result-Code.
  2. create_answer  returns THE template of the request's command code carrying the request's Hop-by-Hop
                    and End-to-End identifiers; every other header field of that template, the other
                    templates and the request are unchanged.
  3. answering events (Closed.event_responder_conn_cer, Open.event_open_rcv_dwr / _dpr / _cer): when the
                    validator accepts the request, exactly one message is handed to
                    put_message_into_send_queue -- the matching template, holding the request's
                    identifiers AT THAT MOMENT -- and send_message_from_queue is called right after it,
                    before the method returns; a rejected request emits nothing.
  4. per tick       Open.run takes a message from the received queue (State.get_message) only when the
                    send queue is empty: call-site precondition of the get_message contract.  Together
                    with 3 this is "emitted before any later inbound message is processed": while an
                    answer is still queued un-serialised no further request is consumed, so no later
                    create_answer can overwrite the identifiers it carries.
  5. flush          send_message_from_queue serialises every message it takes from the queue at that
                    moment, in queue order, into the stream it hands to the transport (bounded: queue
                    of up to 2 messages).

What is NOT covered (single thread of control): an application thread that puts messages concurrently,
and the transport write path (C05).
"""
from pyvc.api import contract, T
from pyvc.spec import implies, unbe, be, ghost_get, ghost_set, is_instance_of
import bromelia.process as P
import bromelia.statemachine as SM
import bromelia.messages as M
from contracts.assoc import (association, inbound, connection, transport, CMD_CE, CMD_DW, CMD_DP)

BASE_CMDS = T.OneOf(T.Const(CMD_CE), T.Const(CMD_DW), T.Const(CMD_DP))


def processor(**kw):
    return T.Obj(P.BaseMessageProcessor, idict={"association": association(**kw)})


def template_for(base, cmd):
    if cmd == CMD_CE:
        return base.cea
    if cmd == CMD_DW:
        return base.dwa
    return base.dpa


def hdr_fields(h):
    return (h._version, h._length, h._flags, h._command_code, h._application_id)


def ids(h):
    return (h._hop_by_hop, h._end_to_end)


def others_untouched(base, old_base, cmd):
    ok = True
    for name in ("cer", "cea", "dwr", "dwa", "dpr", "dpa"):
        t, o = getattr(base, name), getattr(old_base, name)
        if t is template_for(base, cmd):
            continue
        ok = ok and hdr_fields(t._header) == hdr_fields(o._header) and ids(t._header) == ids(o._header)
    return ok


@contract("bromelia.process.BaseMessageProcessor.create_answer", prop="C07", name="_", also=("C06",))
class _CreateAnswer:
    args = {"self": processor(), "msg": inbound(flags=T.Const(b"\x80"), cmd=BASE_CMDS)}

    def ensures_is_the_template_of_that_command(self, msg, result):
        return result is template_for(self.association.base, msg._header._command_code)

    def ensures_carries_the_request_identifiers(msg, result):
        return result._header._hop_by_hop == msg._header._hop_by_hop \
            and result._header._end_to_end == msg._header._end_to_end

    def ensures_same_command_r_clear(msg, result):
        return result._header._command_code == msg._header._command_code \
            and unbe(result._header._flags) & 0x80 == 0

    def ensures_rest_of_the_answer_unchanged(self, msg, result, old):
        o = template_for(old.self.association.base, msg._header._command_code)
        return hdr_fields(result._header) == hdr_fields(o._header) and result._avps == o._avps

    def ensures_other_templates_and_request_unchanged(self, msg, old):
        return others_untouched(self.association.base, old.self.association.base, msg._header._command_code) \
            and ids(msg._header) == ids(old.msg._header) and hdr_fields(msg._header) == hdr_fields(old.msg._header)

    def exceptional(exc):
        return False

    def control_keeps_the_previous_identifiers(self, msg, result, old):
        o = template_for(old.self.association.base, msg._header._command_code)
        return result._header._hop_by_hop == o._header._hop_by_hop


# ------------------------------------------------------------------ 1. the templates
def _local(connection):
    return connection.local_node


def template_ok(result, connection, cmd, cls):
    return is_instance_of(result, cls) and result._header._command_code == cmd \
        and unbe(result._header._flags) & 0x80 == 0 \
        and result.origin_host_avp._data == connection.local_node.host_name.encode("utf-8") \
        and result.origin_realm_avp._data == connection.local_node.realm.encode("utf-8") \
        and result.result_code_avp._data == be(2001, 4) \
        and result.origin_host_avp in result._avps and result.origin_realm_avp in result._avps \
        and result.result_code_avp in result._avps


def _conn_cases():
    from bromelia.constants import DIAMETER_APPLICATION_SWm, VENDOR_ID_3GPP
    app = {"vendor_id": VENDOR_ID_3GPP, "app_id": DIAMETER_APPLICATION_SWm}
    return T.OneOf(connection_with(T.Const([])), connection_with(T.Const(dict(app))),
                   connection_with(T.Const([dict(app)])))


def connection_with(apps):
    from bromelia._internal_utils import Connection, LocalNode, PeerNode
    return T.NTuple(Connection, name=T.Const("bromelia"), mode=T.Const("SERVER"),
                    transport_type=T.Const("TCP"),
                    local_node=T.NTuple(LocalNode, host_name=T.Str(minlen=1, maxlen=64),
                                        realm=T.Str(minlen=1, maxlen=64),
                                        ip_address=T.Const("10.0.0.1"), port=T.Const(3868)),
                    peer_node=T.NTuple(PeerNode, host_name=T.Str(minlen=1, maxlen=64),
                                       realm=T.Str(minlen=1, maxlen=64),
                                       ip_address=T.Const("10.0.0.2"), port=T.Const(3868)),
                    application_ids=apps, watchdog_timeout=T.Const(30))


@contract("bromelia.proxy.DiameterBaseProxy.load_cea", prop="C07", name="_")
class _LoadCEA:
    """0, one (dict form) or a list of configured applications"""
    args = {"connection": _conn_cases()}

    def ensures_cea_template(connection, result):
        return template_ok(result, connection, CMD_CE, M.CEA)

    def exceptional(exc):
        return False


@contract("bromelia.proxy.DiameterBaseProxy.load_dwa", prop="C07", name="_")
class _LoadDWA:
    args = {"connection": connection_with(T.Const([]))}

    def ensures_dwa_template(connection, result):
        return template_ok(result, connection, CMD_DW, M.DWA)

    def exceptional(exc):
        return False


@contract("bromelia.proxy.DiameterBaseProxy.load_dpa", prop="C07", name="_")
class _LoadDPA:
    args = {"connection": connection_with(T.Const([]))}

    def ensures_dpa_template(connection, result):
        return template_ok(result, connection, CMD_DP, M.DPA)

    def exceptional(exc):
        return False


# ------------------------------------------------------------------ callees of the state classes
from pyvc.spec import event_log      # noqa: E402
import bromelia.base as B            # noqa: E402


def put_entry(self, msg):
    h = msg._header
    return ("put", msg, h._hop_by_hop, h._end_to_end, h._command_code, h._flags)


def flush_entry(self):
    return ("flush",)


def validate_entry(self, msg):
    return ("validate", msg)


def take_entry(self):
    return ("take",)


def _put_effect(ctx, ns):
    from pyvc.extmodels import sync_method
    a, msg = ns["self"], ns["msg"]
    sync_method(ctx, a.idict["_send_messages"], "put", [msg], {})
    plain_request = not issubclass(msg.cls, B.DiameterAnswer) and \
        ctx.truth(ctx.call_function(B.DiameterHeader.is_request, [msg.idict["_header"]], {}))
    if issubclass(msg.cls, B.DiameterRequest) or plain_request:
        a.idict["end_to_end_identifiers"].append(
            ctx.call_sym_method(msg.idict["_header"].slots["_end_to_end"], "hex", [], {}))
    return None


def _any_message():
    from contracts.assoc import template
    return T.OneOf(template(M.CEA, CMD_CE, False), template(M.DWA, CMD_DW, False), template(M.DPA, CMD_DP, False),
                   template(M.DWR, CMD_DW, True), template(M.DPR, CMD_DP, True), template(M.CER, CMD_CE, True),
                   # application traffic: the generic classes and a plain DiameterMessage of either kind
                   inbound(flags=T.Const(b"\x80")), inbound(flags=T.Const(b"\x40")),
                   T.Obj(B.DiameterRequest, idict={"_header": _hs(), "_avps": T.ListOf(), "_loaded": T.Const(False)}),
                   T.Obj(B.DiameterAnswer, idict={"_header": _hs(), "_avps": T.ListOf(), "_loaded": T.Const(False)}))


def _hs():
    from contracts.common import header_shape
    return header_shape()


def snap_sendq(self):
    return ghost_set("sq0", list(self._send_messages.st["items"])) \
        and ghost_set("e2e0", list(self.end_to_end_identifiers))


@contract("bromelia.setup.DiameterAssociation.put_message_into_send_queue", prop="C07", name="_",
          also=("C06", "C05"))
class _Put:
    """the message object itself joins the send queue (nothing is serialised yet); the association
    lock is free again afterwards; a request's End-to-End id is remembered"""
    args = {"self": association(), "msg": _any_message()}
    at_calls = True
    log_entry = put_entry
    effect = _put_effect
    check_effect = True
    snapshot_spec = snap_sendq

    def requires(self):
        return self.transport is not None and self.transport.is_connected == True and not self.lock.st["held"]

    def ensures_enqueued(self, msg):
        return self._send_messages.st["items"] == ghost_get("sq0") + [msg]

    def ensures_lock_free_returns_nothing(self, result):
        return result is None and self.lock.st["held"] == False

    def ensures_request_e2e_remembered(self, msg):
        if is_instance_of(msg, B.DiameterRequest) or \
                (not is_instance_of(msg, B.DiameterAnswer) and unbe(msg._header._flags) & 0x80 == 0x80):
            return self.end_to_end_identifiers == ghost_get("e2e0") + [msg._header._end_to_end.hex()]
        return self.end_to_end_identifiers == ghost_get("e2e0")

    def ensures_message_untouched(msg, old):
        return ids(msg._header) == ids(old.msg._header) and hdr_fields(msg._header) == hdr_fields(old.msg._header)

    def exceptional(exc):
        return False


def _flush_effect(ctx, ns):
    """after a flush the send queue holds an unknown number of the messages it held before (those that
    did not fit into the stream stay queued); nothing new joins it"""
    import z3
    from pyvc.values import SInt, int_term
    a = ns["self"]
    q = a.idict["_send_messages"].st
    before = len(q["items"]) + (int_term(q["extra"]) if q.get("extra") is not None else 0)
    name = ctx.fresh_name("left_in_queue")
    t = z3.Int(name)
    ctx.inputs[name] = t
    n = SInt(t)
    ctx.assume_raw(z3.And(n.term >= 0, n.term <= before))
    # (recorded so that the native replay leaves exactly that many messages queued)
    ctx.summary_returns.append(("C07/setup.DiameterAssociation.send_message_from_queue[summary]#left", name, T.Int()))
    q["items"] = []
    q["extra"] = n
    return None


def _drain(self, _chosen=0):
    # run-time twin used when a counterexample is replayed: everything is flushed except the number of
    # messages the counterexample left in the queue
    while self._send_messages.qsize() > max(0, int(_chosen or 0)):
        self._send_messages.get()
    return True


@contract("bromelia.setup.DiameterAssociation.send_message_from_queue", prop="C07", name="summary",
          also=("C06",))
class _FlushSummary:
    """what the state classes rely on: the call returns with the association lock free and never adds
    to the send queue.  Stated as an ASSUMED summary here; the bounded contract `flush` below checks the
    real body against it (and against the byte-level statement) for queues of up to 2 messages."""
    args = {"self": association()}
    at_calls = True
    log_entry = flush_entry
    effect = _flush_effect
    native_effect = _drain
    proof = "table"
    assumes = ("DiameterAssociation.send_message_from_queue returns with the lock free, raises nothing on a "
               "connected transport and never adds to the send queue: checked against the real body only for "
               "queues of <= 2 messages (bounded obligation C07/...send_message_from_queue[flush])",)

    def requires(self):
        return self.transport is not None and self.transport.is_connected == True and not self.lock.st["held"]

    def ensures_lock_free(self, result):
        return result is None and self.lock.st["held"] == False


@contract("bromelia.process.BaseMessageProcessor.is_valid_capability_exchange", prop="C07", name="summary",
          also=("C06",))
class _ValidCE:
    """abstract validity verdict (the verdict itself is C06's subject)"""
    args = {"self": processor(), "msg": inbound()}
    at_calls = True
    log_entry = validate_entry
    returns = T.Bool()
    proof = "table"
    assumes = ("the Capabilities-Exchange / Device-Watchdog / Disconnect-Peer validators return a bool and do "
               "not touch the templates or the queues (their totality is an obligation of C06)",)


@contract("bromelia.process.BaseMessageProcessor.is_valid_device_watchdog", prop="C07", name="summary",
          also=("C06",))
class _ValidDW:
    args = {"self": processor(), "msg": inbound()}
    at_calls = True
    log_entry = validate_entry
    returns = T.Bool()
    proof = "table"


@contract("bromelia.process.BaseMessageProcessor.is_valid_disconnect_peer", prop="C07", name="summary",
          also=("C06",))
class _ValidDP:
    args = {"self": processor(), "msg": inbound()}
    at_calls = True
    log_entry = validate_entry
    returns = T.Bool()
    proof = "table"


# ------------------------------------------------------------------ 3. the answering events
def state_obj(cls, msg, **assoc_kw):
    return T.Obj(cls, idict={"association": association(**assoc_kw),
                             "processor": T.Obj(P.BaseMessageProcessor, idict={"association": T.NoneS}),
                             "name": T.Const("x"), "next_state": T.Const("x"), "msg": msg})


def link(self):
    # the processor of a state works on the state's own association (State.__init__)
    self.processor.association = self.association
    return True


def answered(self, log, cmd):
    """validate, then exactly one put -- the template of that command with the request's identifiers at
    that moment, R clear -- then the flush; nothing else"""
    t = template_for(self.association.base, cmd)
    return len(log) == 3 and log[0][0] == "validate" and log[0][1] is self.msg \
        and log[1][0] == "put" and log[1][1] is t \
        and log[1][2] == self.msg._header._hop_by_hop and log[1][3] == self.msg._header._end_to_end \
        and log[1][4] == cmd and unbe(log[1][5]) & 0x80 == 0 \
        and log[2][0] == "flush"


def not_answered(log):
    return len(log) == 1 and log[0][0] == "validate"


def _quiet_assoc():
    from contracts.assoc import transport
    return dict(mode=T.Const("SERVER"), recv=T.Sync("queue", extra=True), active=T.Bool(),
                transport_shape=T.Obj(__import__("bromelia.transport", fromlist=["x"]).TcpClient, idict={
                    "is_connected": T.Const(True), "_stop_threads": T.Bool(),
                    "events": T.ListOf(), "tracking_events_count": T.Const(0), "events_mask": T.Const(1),
                    "write_mode_on": T.Sync("event"), "read_mode_on": T.Sync("event", flag=True)}))


def _answering_event(target, cls, cmd, label):
    @contract(target, prop="C07", name=label)
    class _E:
        args = {"self": state_obj(cls, inbound(flags=T.Const(b"\x80"), cmd=T.Const(cmd)), **_quiet_assoc())}
        setup_spec = link

        def ensures_answer_or_nothing(self):
            log = event_log()
            return answered(self, log, cmd) or not_answered(log)

        def ensures_request_left_alone(self, old):
            return ids(self.msg._header) == ids(old.self.msg._header)

        def exceptional(exc):
            return False

        def control_never_answers(self):
            return not_answered(event_log())
    return _E


_answering_event("bromelia.statemachine.Closed.event_responder_conn_cer", SM.Closed, CMD_CE, "answers-cer")
_answering_event("bromelia.statemachine.Open.event_open_rcv_cer", SM.Open, CMD_CE, "answers-cer")
_answering_event("bromelia.statemachine.Open.event_open_rcv_dwr", SM.Open, CMD_DW, "answers-dwr")
_answering_event("bromelia.statemachine.Open.event_open_rcv_dpr", SM.Open, CMD_DP, "answers-dpr")


# ------------------------------------------------------------------ 4. one tick of the Open state
from pyvc.values import SObj as _SObj     # noqa: E402
from bromelia.exceptions import ProcessRequestException    # noqa: E402


def _receiver_is_open(ctx, ns):
    return isinstance(ns["self"], _SObj) and ns["self"].cls is SM.Open


def _take_effect(ctx, ns):
    from pyvc.extmodels import sync_method
    a = ns["self"].idict["association"]
    sync_method(ctx, a.idict["lock"], "acquire", [], {})
    m = sync_method(ctx, a.idict["_recv_messages"], "get", [], {})
    sync_method(ctx, a.idict["lock"], "release", [], {})
    return m


def take_entry(self):
    return ("take", self.association._recv_messages.st["items"][0])


def snap_recv(self):
    return ghost_set("rq0", list(self.association._recv_messages.st["items"]))


@contract("bromelia.statemachine.State.get_message", prop="C07", name="open-tick", also=("C06",))
class _Take:
    """In the Open state a received message is consumed ONLY while nothing is waiting to be sent (the
    precondition is proved at the call site in Open.run): an answer still sitting un-serialised in the
    send queue can therefore not have its identifiers overwritten by the next request."""
    args = {"self": state_obj(SM.Open, T.NoneS, mode=T.Const("SERVER"),
                              recv=T.Sync("queue", items=[inbound()], extra=True), send=T.Sync("queue"))}
    at_calls = True
    accepts = _receiver_is_open
    native_accepts = lambda self: isinstance(self, SM.Open)      # noqa: E731
    log_entry = take_entry
    effect = _take_effect
    check_effect = True
    snapshot_spec = snap_recv

    def requires(self):
        a = self.association
        return a._send_messages.empty() and len(a._recv_messages.st["items"]) >= 1 and not a.lock.st["held"]

    def ensures_head_of_the_received_queue(self, result):
        q0 = ghost_get("rq0")
        return result is q0[0] and self.association._recv_messages.st["items"] == q0[1:] \
            and self.association.lock.st["held"] == False


@contract("bromelia.statemachine.make_logging", prop="C07", name="summary", also=("C06",))
class _SMLogging:
    args = {"msg": inbound()}
    at_calls = True
    returns = T.NoneS
    proof = "table"
    assumes = ("statemachine.make_logging only formats a debug line (no effect on the association)",)


def count(log, kind):
    n = 0
    for e in log:
        if e[0] == kind:
            n += 1
    return n


def puts_after_take_answer_it(self, log):
    """every base ANSWER template queued after the take carries the taken request's identifiers and is
    followed by a flush before the tick ends"""
    taken, ok = None, True
    for i, e in enumerate(log):
        if e[0] == "take":
            taken = e[1]
        elif e[0] == "put" and taken is not None:
            b = self.association.base
            if e[1] is b.cea or e[1] is b.dwa or e[1] is b.dpa:
                ok = ok and e[2] == taken._header._hop_by_hop and e[3] == taken._header._end_to_end \
                    and e[4] == taken._header._command_code and unbe(taken._header._flags) & 0x80 == 0x80 \
                    and i + 1 < len(log) and log[i + 1][0] == "flush"
    return ok


@contract("bromelia.statemachine.Open.run", prop="C07", name="tick")
class _OpenTick:
    # whatever the transport thread is doing: idle (mask 1) or still writing the previous stream (mask 3)
    args = {"self": state_obj(SM.Open, T.NoneS, mode=T.Const("SERVER"), send=T.Sync("queue", extra=True),
                              transport_shape=transport(mask=T.OneOf(T.Const(1), T.Const(3))))}
    setup_spec = link

    def ensures_at_most_one_message_taken(self):
        return count(event_log(), "take") <= 1

    def ensures_answers_belong_to_the_taken_request(self):
        return puts_after_take_answer_it(self, event_log())

    def exceptional(exc):
        return False

    def control_takes_while_sending(self):
        return count(event_log(), "take") == 0


# ------------------------------------------------------------------ 5. the flush (bounded: <= 2 queued messages)
import bromelia.transport as TR                                          # noqa: E402
from contracts.common import msg_shape, cat, slen, cat_len               # noqa: E402
from contracts.l5_message import enc_hdr_of                              # noqa: E402
from pyvc.spec import use_lemma                                          # noqa: E402

SEND_MAX = 4096 * 64


def wire_entry(self, mode, msg):
    return ("wire", mode, msg)


@contract("bromelia.transport.TcpConnection._set_selector_events_mask", prop="C07", name="summary",
          also=("C05", "C06"))
class _SelectorSummary:
    """hand-over point to the transport thread (C05's subject): here only WHAT is handed over matters"""
    args = {"self": T.Obj(TR.TcpClient, idict={}), "mode": T.Const("rw"), "msg": T.Bytes()}
    at_calls = True
    accepts = lambda ctx, ns: "selector" not in ns["self"].idict       # noqa: E731  (a modelled selector: real body)
    native_accepts = lambda self: not hasattr(self, "selector")        # noqa: E731
    log_entry = wire_entry
    returns = T.NoneS
    proof = "table"
    assumes = ("TcpConnection._set_selector_events_mask(mode, stream) registers `stream` with the selector; the "
               "transport side is not covered by C07 (see C05)",)


def wire_bytes(m):
    return enc_hdr_of(m._header) + cat(m._avps)


def _flush_assoc(items):
    return association(mode=T.Const("SERVER"), recv=T.Sync("queue"), send=T.Sync("queue", items=items),
                       active=T.Const(True))


def fits(ms):
    total = 0
    for m in ms:
        total = total + 20 + slen(m._avps)
    return total <= SEND_MAX


def _lemmas(ms):
    ok = True
    for m in ms:
        ok = ok and use_lemma(cat_len, m._avps)
    return ok


def snap_flush(self):
    return ghost_set("fq0", list(self._send_messages.st["items"]))


def _flush_contract(n):
    @contract("bromelia.setup.DiameterAssociation.send_message_from_queue", prop="C07", name="flush-%d" % n,
              also=("C05",))
    class _Flush:
        """everything queued is serialised NOW (header with the identifiers it holds at this moment, then
        its AVPs), in queue order, into the one stream handed to the transport; the queue is empty and
        the lock free afterwards"""
        args = {"self": _flush_assoc([msg_shape(cls=(B.DiameterAnswer, B.DiameterRequest)[i % 2])
                                       for i in range(n)])}
        snapshot_spec = snap_flush
        bounded = "send queue of exactly %d message(s), each any header and any AVP list" % n

        def requires(self):
            q = self._send_messages.st["items"]
            return _lemmas(q) and fits(q)

        def ensures_one_stream_with_every_message_in_order(self):
            q0, log = ghost_get("fq0"), event_log()
            expect = b""
            for m in q0:
                expect = expect + wire_bytes(m)
            return len(log) == 1 and log[0][0] == "wire" and log[0][1] == "rw" and log[0][2] == expect

        def ensures_queue_empty_lock_free(self):
            return len(self._send_messages.st["items"]) == 0 and self.lock.st["held"] == False

        def ensures_requests_remembered_as_pending(self):
            ok = True
            for m in ghost_get("fq0"):
                if is_instance_of(m, B.DiameterRequest):
                    ok = ok and self.pending_requests[m._header._hop_by_hop.hex()] is m
            return ok

        def exceptional(exc):
            return False

        def control_reversed_or_empty(self):
            q0, log = ghost_get("fq0"), event_log()
            expect = b""
            for m in q0:
                expect = wire_bytes(m) + expect
            return n >= 2 and log[0][2] == expect
    return _Flush


for _n in (0, 1, 2):
    _flush_contract(_n)


# ------------------------------------------------------------------ 5b. the flush when the backlog exceeds the window
def _overflow_contract(n):
    @contract("bromelia.setup.DiameterAssociation.send_message_from_queue", prop="C05", name="flush-overflow-%d" % n,
              also=("C07",))
    class _FlushOverflow:
        """a backlog larger than the 256 KiB flush window: some NON-EMPTY prefix of the queue is serialised, in
        order, into the one stream handed over (so the head of the queue always makes progress: a message
        larger than the window goes out alone instead of being put back for ever), and exactly the other
        messages are still queued, once each, in their submission order -- no message is both written and
        kept, none disappears, none is moved behind a later submission"""
        args = {"self": _flush_assoc([msg_shape(cls=(B.DiameterAnswer, B.DiameterRequest)[i % 2])
                                       for i in range(n)])}
        snapshot_spec = snap_flush
        bounded = "send queue of exactly %d message(s) of any size whose total exceeds the window" % n

        def requires(self):
            q = self._send_messages.st["items"]
            return _lemmas(q) and not fits(q)

        def ensures_a_nonempty_prefix_is_written_and_the_rest_stays_queued_in_order(self):
            q0, log = ghost_get("fq0"), event_log()
            left = self._send_messages.st["items"]
            if len(log) != 1 or log[0][0] != "wire":
                return False
            ok = False
            for k in range(1, len(q0) + 1):
                expect = b""
                for m in q0[:k]:
                    expect = expect + wire_bytes(m)
                same_rest = len(left) == len(q0) - k
                if same_rest:
                    for i in range(len(left)):
                        same_rest = same_rest and left[i] is q0[k + i]
                ok = ok or (same_rest and log[0][2] == expect)
            return ok

        def ensures_lock_free(self):
            return self.lock.st["held"] == False

        def exceptional(exc):
            return False

        # (no negative control here: refuting one needs a solver MODEL of a > 256 KiB backlog over symbolic AVP
        # sequences, which takes cvc5 minutes; non-vacuity is the `cover` obligation, and the reproduction
        # findings/c05_flush_overflow_demo.py exercises the same clause on the real code)
    return _FlushOverflow


import os as _os                                                         # noqa: E402
# three queued messages (a fitting one, one that does not fit, one submitted after it) is the smallest
# backlog on which "put back behind later submissions" shows; it takes minutes, so thorough tier only
for _n in ((1, 2, 3) if _os.environ.get("VERIF_TIER") == "thorough" else (1, 2)):
    _overflow_contract(_n)


# ------------------------------------------------------------------ 5c. the flush for a send queue of ANY length
#  (loop invariant over a ghost sequence; replaces "bounded: <= 2 queued messages" as the deciding obligation,
#   the bounded contracts above stay as companions with replayable inputs)
from pyvc.api import Loop                                                # noqa: E402
from pyvc.seqs import ElemKind, Field, fold                              # noqa: E402
from pyvc.spec import seq_snoc, seq_empty, proved                        # noqa: E402
from contracts.common import AVP_ELEM                                    # noqa: E402

_HDR_FIELDS = {"_version": Field(("bytesn", 1)), "_length": Field(("bytesn", 3)), "_flags": Field(("bytesn", 1)),
               "_command_code": Field(("bytesn", 3)), "_application_id": Field(("bytesn", 4)),
               "_hop_by_hop": Field(("bytesn", 4)), "_end_to_end": Field(("bytesn", 4))}
_QMSG_FIELDS = {"_header": Field(("obj", B.DiameterHeader, _HDR_FIELDS), "idict"),
                "_avps": Field(("seq", AVP_ELEM), "idict"), "_loaded": Field(("const", False), "idict")}
# a queued message: a request or an answer (typed cases), any header, any list of AVPs
QMSG = ElemKind("qmsg", [("request", B.DiameterRequest, _QMSG_FIELDS), ("answer", B.DiameterAnswer, _QMSG_FIELDS)])

wires = fold("wires", wire_bytes, "bytes")          # concatenated serialisations of a sequence of queued messages


def _flush_assoc_any():
    a = association(mode=T.Const("SERVER"), recv=T.Sync("queue"), send=T.Sync("queue", tail=T.Seq(QMSG)),
                    active=T.Const(True))
    a.idict["pending_requests"] = T.AnyDict()
    return a


def flush_loop_entry(self):
    q = self._send_messages.st
    return ghost_set("q0", q["tail"]) and ghost_set("done", seq_empty(q["tail"]))


def finv_queue(self, done):
    q = self._send_messages.st
    return len(q["items"]) == 0 and ghost_get("q0") == done + q["tail"]


def finv_stream(stream, done):
    return stream == wires(done)


def finv_lock(self):
    return self.lock.st["held"] == True


def flush_loop_tail(msg, done):
    # the iteration ran to its end: `msg` was taken from the head of the queue and appended to the stream
    return ghost_set("done", seq_snoc(done, msg))


def queue_now(self):
    q = self._send_messages.st
    return q["items"] + q["tail"]


@contract("bromelia.setup.DiameterAssociation.send_message_from_queue", prop="C05", name="flush-any", also=("C07",))
class _FlushAny:
    """a send queue holding ANY number of messages (requests and answers of any content and size): the flush
    serialises a prefix of the queue -- each message as it is NOW: header with the identifiers it holds at
    this moment, then its AVPs -- in queue order into the ONE stream it hands to the transport; exactly the
    other messages are still queued, once each, in their order; the prefix is non-empty whenever the queue
    was (so the head of the queue always makes progress); the association lock is free afterwards"""
    args = {"self": _flush_assoc_any()}
    loops = {0: Loop(vars={"stream": T.Bytes(), "msg": T.NoneS, "MESSAGE_LENGTH": T.Int(), "key": T.NoneS,
                           "held": T.Int()},
                     heap={"self._send_messages": T.Sync("queue", tail=T.Seq(QMSG)),
                           "self.pending_requests": T.AnyDict()},
                     ghost={"done": T.Seq(QMSG)},
                     inv=[finv_queue, finv_stream, finv_lock], entry=flush_loop_entry, tail=flush_loop_tail)}

    def ensures_prefix_written_in_order_rest_still_queued_in_order(self):
        log, done = event_log(), ghost_get("done")
        q = self._send_messages.st
        return len(log) == 1 and log[0][0] == "wire" and log[0][1] == "rw" and log[0][2] == wires(done) \
            and ghost_get("q0") == done + queue_now(self) and len(q.get("after") or []) == 0

    def ensures_head_of_the_queue_makes_progress(self):
        return implies(len(ghost_get("q0")) > 0, len(ghost_get("done")) > 0)

    def ensures_lock_free(self):
        return self.lock.st["held"] == False

    def exceptional(exc):
        return False

    samples = 0          # symbolic sequences are not materialised natively; the bounded flush-n contracts are

    # (a negative control over the ghost sequences needs a solver MODEL of symbolic message sequences: 20-30 s
    # per path in the last stage of the cascade; the control below is decided by evaluation, non-vacuity of the
    # sequence clauses is the `cover` obligation plus the bounded flush-n contracts with their own controls)
    def control_lock_still_held(self):
        return self.lock.st["held"] == True
