"""L3 -- GroupedType container operations (C01: the data of a Grouped AVP is the concatenation of
its members' encodings, to any nesting depth: each member's encoding comes from the member's own
dump contract, so depth is unbounded by induction on the structure)."""
from pyvc.api import contract, T, Loop
from pyvc.spec import implies, use_lemma, ghost_get, ghost_set, seq_snoc, same, is_instance_of
from bromelia.exceptions import DiameterAvpError
import bromelia.base as B
import bromelia.types as TY
from bromelia.avps.ietf.rfc6733 import VendorSpecificApplicationIdAVP as _G
from contracts.common import AVP_ELEM, cat, slen, cat_len, enc_of, any_avp_shape, avp_plen, avp_len, view_vendor, data_of, MAX24
from contracts.l5_message import key_loop_inv


def _abstract_grouped(ctx, ns):
    """use the summaries only for abstract containers; concrete member lists run the real body (the
    mandatory-member check needs the concrete members)"""
    from pyvc.values import SObj, SSeq
    from pyvc.seqs import SymDict
    g = ns["self"]
    if not isinstance(g, SObj):
        return False
    idk = g.idict.known if isinstance(g.idict, SymDict) else (g.idict or {})
    arg = ns.get("avps", ns.get("avp"))
    return isinstance(g.idict, SymDict) or isinstance(idk.get("_avps"), SSeq) or isinstance(arg, SSeq) \
        or (isinstance(arg, SObj) and arg.ref is not None)


def grouped_shape(cls=None):
    return T.Obj(cls or _G, slots={"_flags": T.Bytes(1), "_data": T.Bytes(), "_vendor_id": T.NoneS,
                                   "_padding": T.NoneS},
                 idict={"code": T.Const((cls or _G).code), "vendor_id": T.NoneS, "_avps": T.Seq(AVP_ELEM)},
                 open_dict=True, excluded=("code", "vendor_id", "_avps"))


@contract("bromelia.types.GroupedType.append", prop="C01", name="_", also=("C11",))
class _GAppend:
    """append(avp): the member list grows by avp (at the end, nothing else changes) and the data
    buffer by exactly the member's RFC 6733 encoding"""
    args = {"self": grouped_shape(), "avp": T.OneOf(any_avp_shape(), T.Int(), T.NoneS)}
    loops = {0: Loop(vars={"index": T.Int()}, inv=key_loop_inv)}
    at_calls = True
    accepts = _abstract_grouped
    modifies = {"self._avps": T.Seq(AVP_ELEM), "self._data": T.Bytes()}
    open_dicts = ("self",)

    raises = (DiameterAvpError,)

    def requires(self, avp):
        return not isinstance(avp, B.DiameterAVP) or avp_len(view_vendor(avp), data_of(avp)) < MAX24

    def exceptional(avp, exc):
        return is_instance_of(exc, DiameterAvpError) and not isinstance(avp, B.DiameterAVP)

    def ensures_only_avps_accepted(avp):
        return isinstance(avp, B.DiameterAVP)

    def ensures_member_appended(self, avp, old):
        return self._avps == seq_snoc(old.self._avps, avp)

    def ensures_data_grows_by_member_encoding(self, avp, old):
        return self._data == old.self._data + enc_of(avp)

    def ensures_preserves_data_is_cat_of_members(self, avp, old):
        return implies(old.self._data == cat(old.self._avps), self._data == cat(self._avps))

    def control_data_untouched(self, old):
        return self._data == old.self._data


def gextend_inv(self, done):
    e = ghost_get("g_entry")
    return self._avps == e.avps + done and self._data == e.data + cat(done)


class GSnap(object):
    def __init__(self, avps, data):
        self.avps = avps
        self.data = data


def g_snapshot(self):
    return ghost_set("g_entry", GSnap(list(self._avps), self._data))


@contract("bromelia.types.GroupedType.extend", prop="C01", name="_", also=("C11",))
class _GExtend:
    args = {"self": grouped_shape(), "avps": T.Seq(AVP_ELEM)}
    loops = {0: Loop(heap={"self._avps": T.Seq(AVP_ELEM), "self._data": T.Bytes()}, open_dicts=("self",),
                     inv=gextend_inv)}
    setup_spec = g_snapshot
    at_calls = True
    accepts = _abstract_grouped
    modifies = {"self._avps": T.Seq(AVP_ELEM), "self._data": T.Bytes()}
    open_dicts = ("self",)

    def ensures_all_members_in_order(self, avps, old):
        return self._avps == old.self._avps + avps

    def ensures_data_is_concatenation(self, avps, old):
        return self._data == old.self._data + cat(avps)
