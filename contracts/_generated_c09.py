from pyvc.spec import be


def carries_session_id_0(result, session_id):
    d = result._avps[0]._data
    return d == session_id


def carries_auth_application_id_1(result, auth_application_id):
    d = result._avps[1]._data
    return d == auth_application_id


def carries_origin_host_2(result, origin_host):
    d = result._avps[2]._data
    return d == origin_host.encode('utf-8')


def carries_origin_realm_3(result, origin_realm):
    d = result._avps[3]._data
    return d == origin_realm.encode('utf-8')


def carries_result_code_4(result, result_code):
    d = result._avps[4]._data
    return d == be(result_code, 4)


def carries_cc_request_number_6(result, cc_request_number):
    d = result._avps[6]._data
    return d == be(cc_request_number, 4)


def carries_origin_state_id_7(result, origin_state_id):
    d = result._avps[7]._data
    return d == be(origin_state_id, 4)


def carries_redirect_max_cache_time_8(result, redirect_max_cache_time):
    d = result._avps[8]._data
    return d == be(redirect_max_cache_time, 4)


def carries_error_message_9(result, error_message):
    d = result._avps[9]._data
    return d == error_message.encode('utf-8')


def carries_route_record_10(result, route_record):
    d = result._avps[10]._data
    return d == route_record.encode('utf-8')


def carries_session_id_0(result, session_id):
    d = result._avps[0]._data
    return d == session_id


def carries_auth_application_id_1(result, auth_application_id):
    d = result._avps[1]._data
    return d == auth_application_id


def carries_origin_host_2(result, origin_host):
    d = result._avps[2]._data
    return d == origin_host.encode('utf-8')


def carries_origin_realm_3(result, origin_realm):
    d = result._avps[3]._data
    return d == origin_realm.encode('utf-8')


def carries_destination_realm_4(result, destination_realm):
    d = result._avps[4]._data
    return d == destination_realm.encode('utf-8')


def carries_cc_request_number_6(result, cc_request_number):
    d = result._avps[6]._data
    return d == be(cc_request_number, 4)


def carries_destination_host_7(result, destination_host):
    d = result._avps[7]._data
    return d == destination_host.encode('utf-8')


def carries_origin_state_id_8(result, origin_state_id):
    d = result._avps[8]._data
    return d == be(origin_state_id, 4)


def carries_framed_ipv6_prefix_9(result, framed_ipv6_prefix):
    d = result._avps[9]._data
    return d == framed_ipv6_prefix.encode('utf-8')


def carries_x3gpp_charging_characteristics_10(result, x3gpp_charging_characteristics):
    d = result._avps[10]._data
    return d == x3gpp_charging_characteristics.encode('utf-8')


def carries_called_station_id_11(result, called_station_id):
    d = result._avps[11]._data
    return d == called_station_id.encode('utf-8')


def carries_route_record_12(result, route_record):
    d = result._avps[12]._data
    return d == route_record.encode('utf-8')


def carries_session_id_0(result, session_id):
    d = result._avps[0]._data
    return d == session_id


def carries_origin_host_1(result, origin_host):
    d = result._avps[1]._data
    return d == origin_host.encode('utf-8')


def carries_origin_realm_2(result, origin_realm):
    d = result._avps[2]._data
    return d == origin_realm.encode('utf-8')


def carries_result_code_3(result, result_code):
    d = result._avps[3]._data
    return d == be(result_code, 4)


def carries_origin_state_id_4(result, origin_state_id):
    d = result._avps[4]._data
    return d == be(origin_state_id, 4)


def carries_error_message_5(result, error_message):
    d = result._avps[5]._data
    return d == error_message.encode('utf-8')


def carries_error_reporting_host_6(result, error_reporting_host):
    d = result._avps[6]._data
    return d == error_reporting_host.encode('utf-8')


def carries_session_id_0(result, session_id):
    d = result._avps[0]._data
    return d == session_id


def carries_auth_application_id_1(result, auth_application_id):
    d = result._avps[1]._data
    return d == auth_application_id


def carries_origin_host_2(result, origin_host):
    d = result._avps[2]._data
    return d == origin_host.encode('utf-8')


def carries_origin_realm_3(result, origin_realm):
    d = result._avps[3]._data
    return d == origin_realm.encode('utf-8')


def carries_destination_realm_4(result, destination_realm):
    d = result._avps[4]._data
    return d == destination_realm.encode('utf-8')


def carries_origin_state_id_6(result, origin_state_id):
    d = result._avps[6]._data
    return d == be(origin_state_id, 4)


def carries_route_record_7(result, route_record):
    d = result._avps[7]._data
    return d == route_record.encode('utf-8')


def carries_session_id_0(result, session_id):
    d = result._avps[0]._data
    return d == session_id


def carries_result_code_1(result, result_code):
    d = result._avps[1]._data
    return d == be(result_code, 4)


def carries_origin_host_2(result, origin_host):
    d = result._avps[2]._data
    return d == origin_host.encode('utf-8')


def carries_origin_realm_3(result, origin_realm):
    d = result._avps[3]._data
    return d == origin_realm.encode('utf-8')


def carries_auth_application_id_4(result, auth_application_id):
    d = result._avps[4]._data
    return d == auth_application_id


def carries_cc_request_number_6(result, cc_request_number):
    d = result._avps[6]._data
    return d == be(cc_request_number, 4)


def carries_redirect_max_cache_time_7(result, redirect_max_cache_time):
    d = result._avps[7]._data
    return d == be(redirect_max_cache_time, 4)


def carries_route_record_8(result, route_record):
    d = result._avps[8]._data
    return d == route_record.encode('utf-8')


def carries_session_id_0(result, session_id):
    d = result._avps[0]._data
    return d == session_id


def carries_origin_host_1(result, origin_host):
    d = result._avps[1]._data
    return d == origin_host.encode('utf-8')


def carries_origin_realm_2(result, origin_realm):
    d = result._avps[2]._data
    return d == origin_realm.encode('utf-8')


def carries_destination_realm_3(result, destination_realm):
    d = result._avps[3]._data
    return d == destination_realm.encode('utf-8')


def carries_auth_application_id_4(result, auth_application_id):
    d = result._avps[4]._data
    return d == auth_application_id


def carries_cc_request_number_6(result, cc_request_number):
    d = result._avps[6]._data
    return d == be(cc_request_number, 4)


def carries_destination_host_7(result, destination_host):
    d = result._avps[7]._data
    return d == destination_host.encode('utf-8')


def carries_user_name_8(result, user_name):
    d = result._avps[8]._data
    return d == user_name.encode('utf-8')


def carries_origin_state_id_9(result, origin_state_id):
    d = result._avps[9]._data
    return d == be(origin_state_id, 4)


def carries_service_identifier_10(result, service_identifier):
    d = result._avps[10]._data
    return d == be(service_identifier, 4)


def carries_route_record_11(result, route_record):
    d = result._avps[11]._data
    return d == route_record.encode('utf-8')


def carries_session_id_0(result, session_id):
    d = result._avps[0]._data
    return d == session_id


def carries_auth_application_id_1(result, auth_application_id):
    d = result._avps[1]._data
    return d == auth_application_id


def carries_origin_host_2(result, origin_host):
    d = result._avps[2]._data
    return d == origin_host.encode('utf-8')


def carries_origin_realm_3(result, origin_realm):
    d = result._avps[3]._data
    return d == origin_realm.encode('utf-8')


def carries_result_code_4(result, result_code):
    d = result._avps[4]._data
    return d == be(result_code, 4)


def carries__class_5(result, _class):
    d = result._avps[5]._data
    return d == _class.encode('utf-8')


def carries_error_message_6(result, error_message):
    d = result._avps[6]._data
    return d == error_message.encode('utf-8')


def carries_origin_state_id_7(result, origin_state_id):
    d = result._avps[7]._data
    return d == be(origin_state_id, 4)


def carries_redirect_max_cache_time_8(result, redirect_max_cache_time):
    d = result._avps[8]._data
    return d == be(redirect_max_cache_time, 4)


def carries_session_id_0(result, session_id):
    d = result._avps[0]._data
    return d == session_id


def carries_auth_application_id_1(result, auth_application_id):
    d = result._avps[1]._data
    return d == auth_application_id


def carries_origin_host_2(result, origin_host):
    d = result._avps[2]._data
    return d == origin_host.encode('utf-8')


def carries_origin_realm_3(result, origin_realm):
    d = result._avps[3]._data
    return d == origin_realm.encode('utf-8')


def carries_destination_realm_4(result, destination_realm):
    d = result._avps[4]._data
    return d == destination_realm.encode('utf-8')


def carries_destination_host_5(result, destination_host):
    d = result._avps[5]._data
    return d == destination_host.encode('utf-8')


def carries_af_application_identifier_6(result, af_application_identifier):
    d = result._avps[6]._data
    return d == af_application_identifier.encode('utf-8')


def carries_af_charging_identifier_7(result, af_charging_identifier):
    d = result._avps[7]._data
    return d == af_charging_identifier.encode('utf-8')


def carries_framed_ipv6_prefix_8(result, framed_ipv6_prefix):
    d = result._avps[8]._data
    return d == framed_ipv6_prefix.encode('utf-8')


def carries_called_station_id_9(result, called_station_id):
    d = result._avps[9]._data
    return d == called_station_id.encode('utf-8')


def carries_origin_state_id_10(result, origin_state_id):
    d = result._avps[10]._data
    return d == be(origin_state_id, 4)


def carries_route_record_11(result, route_record):
    d = result._avps[11]._data
    return d == route_record.encode('utf-8')


def carries_session_id_0(result, session_id):
    d = result._avps[0]._data
    return d == session_id


def carries_origin_host_1(result, origin_host):
    d = result._avps[1]._data
    return d == origin_host.encode('utf-8')


def carries_origin_realm_2(result, origin_realm):
    d = result._avps[2]._data
    return d == origin_realm.encode('utf-8')


def carries_result_code_3(result, result_code):
    d = result._avps[3]._data
    return d == be(result_code, 4)


def carries_origin_state_id_4(result, origin_state_id):
    d = result._avps[4]._data
    return d == be(origin_state_id, 4)


def carries_error_message_5(result, error_message):
    d = result._avps[5]._data
    return d == error_message.encode('utf-8')


def carries_error_reporting_host_6(result, error_reporting_host):
    d = result._avps[6]._data
    return d == error_reporting_host.encode('utf-8')


def carries_redirect_max_cache_time_7(result, redirect_max_cache_time):
    d = result._avps[7]._data
    return d == be(redirect_max_cache_time, 4)


def carries_session_id_0(result, session_id):
    d = result._avps[0]._data
    return d == session_id


def carries_origin_host_1(result, origin_host):
    d = result._avps[1]._data
    return d == origin_host.encode('utf-8')


def carries_origin_realm_2(result, origin_realm):
    d = result._avps[2]._data
    return d == origin_realm.encode('utf-8')


def carries_destination_realm_3(result, destination_realm):
    d = result._avps[3]._data
    return d == destination_realm.encode('utf-8')


def carries_destination_host_4(result, destination_host):
    d = result._avps[4]._data
    return d == destination_host.encode('utf-8')


def carries_auth_application_id_5(result, auth_application_id):
    d = result._avps[5]._data
    return d == auth_application_id


def carries_origin_state_id_7(result, origin_state_id):
    d = result._avps[7]._data
    return d == be(origin_state_id, 4)


def carries_route_record_8(result, route_record):
    d = result._avps[8]._data
    return d == route_record.encode('utf-8')


def carries_session_id_0(result, session_id):
    d = result._avps[0]._data
    return d == session_id


def carries_origin_host_1(result, origin_host):
    d = result._avps[1]._data
    return d == origin_host.encode('utf-8')


def carries_origin_realm_2(result, origin_realm):
    d = result._avps[2]._data
    return d == origin_realm.encode('utf-8')


def carries_result_code_3(result, result_code):
    d = result._avps[3]._data
    return d == be(result_code, 4)


def carries_origin_state_id_4(result, origin_state_id):
    d = result._avps[4]._data
    return d == be(origin_state_id, 4)


def carries__class_5(result, _class):
    d = result._avps[5]._data
    return d == _class.encode('utf-8')


def carries_error_message_6(result, error_message):
    d = result._avps[6]._data
    return d == error_message.encode('utf-8')


def carries_error_reporting_host_7(result, error_reporting_host):
    d = result._avps[7]._data
    return d == error_reporting_host.encode('utf-8')


def carries_redirect_max_cache_time_8(result, redirect_max_cache_time):
    d = result._avps[8]._data
    return d == be(redirect_max_cache_time, 4)


def carries_session_id_0(result, session_id):
    d = result._avps[0]._data
    return d == session_id


def carries_origin_host_1(result, origin_host):
    d = result._avps[1]._data
    return d == origin_host.encode('utf-8')


def carries_origin_realm_2(result, origin_realm):
    d = result._avps[2]._data
    return d == origin_realm.encode('utf-8')


def carries_destination_realm_3(result, destination_realm):
    d = result._avps[3]._data
    return d == destination_realm.encode('utf-8')


def carries_destination_host_4(result, destination_host):
    d = result._avps[4]._data
    return d == destination_host.encode('utf-8')


def carries_auth_application_id_5(result, auth_application_id):
    d = result._avps[5]._data
    return d == auth_application_id


def carries_origin_state_id_7(result, origin_state_id):
    d = result._avps[7]._data
    return d == be(origin_state_id, 4)


def carries__class_8(result, _class):
    d = result._avps[8]._data
    return d == _class.encode('utf-8')


def carries_route_record_9(result, route_record):
    d = result._avps[9]._data
    return d == route_record.encode('utf-8')


def carries_session_id_0(result, session_id):
    d = result._avps[0]._data
    return d == session_id


def carries_origin_host_1(result, origin_host):
    d = result._avps[1]._data
    return d == origin_host.encode('utf-8')


def carries_origin_realm_2(result, origin_realm):
    d = result._avps[2]._data
    return d == origin_realm.encode('utf-8')


def carries_result_code_3(result, result_code):
    d = result._avps[3]._data
    return d == be(result_code, 4)


def carries_error_message_4(result, error_message):
    d = result._avps[4]._data
    return d == error_message.encode('utf-8')


def carries_error_reporting_host_5(result, error_reporting_host):
    d = result._avps[5]._data
    return d == error_reporting_host.encode('utf-8')


def carries_origin_state_id_6(result, origin_state_id):
    d = result._avps[6]._data
    return d == be(origin_state_id, 4)


def carries__class_7(result, _class):
    d = result._avps[7]._data
    return d == _class.encode('utf-8')


def carries_redirect_max_cache_time_8(result, redirect_max_cache_time):
    d = result._avps[8]._data
    return d == be(redirect_max_cache_time, 4)


def carries_session_id_0(result, session_id):
    d = result._avps[0]._data
    return d == session_id


def carries_origin_host_1(result, origin_host):
    d = result._avps[1]._data
    return d == origin_host.encode('utf-8')


def carries_origin_realm_2(result, origin_realm):
    d = result._avps[2]._data
    return d == origin_realm.encode('utf-8')


def carries_destination_realm_3(result, destination_realm):
    d = result._avps[3]._data
    return d == destination_realm.encode('utf-8')


def carries_auth_application_id_4(result, auth_application_id):
    d = result._avps[4]._data
    return d == auth_application_id


def carries_destination_host_6(result, destination_host):
    d = result._avps[6]._data
    return d == destination_host.encode('utf-8')


def carries__class_7(result, _class):
    d = result._avps[7]._data
    return d == _class.encode('utf-8')


def carries_origin_state_id_8(result, origin_state_id):
    d = result._avps[8]._data
    return d == be(origin_state_id, 4)


def carries_route_record_9(result, route_record):
    d = result._avps[9]._data
    return d == route_record.encode('utf-8')


def carries_session_id_0(result, session_id):
    d = result._avps[0]._data
    return d == session_id


def carries_result_code_2(result, result_code):
    d = result._avps[2]._data
    return d == be(result_code, 4)


def carries_origin_host_4(result, origin_host):
    d = result._avps[4]._data
    return d == origin_host.encode('utf-8')


def carries_origin_realm_5(result, origin_realm):
    d = result._avps[5]._data
    return d == origin_realm.encode('utf-8')


def carries_route_record_6(result, route_record):
    d = result._avps[6]._data
    return d == route_record.encode('utf-8')


def carries_session_id_0(result, session_id):
    d = result._avps[0]._data
    return d == session_id


def carries_result_code_2(result, result_code):
    d = result._avps[2]._data
    return d == be(result_code, 4)


def carries_origin_host_4(result, origin_host):
    d = result._avps[4]._data
    return d == origin_host.encode('utf-8')


def carries_origin_realm_5(result, origin_realm):
    d = result._avps[5]._data
    return d == origin_realm.encode('utf-8')


def carries_ue_usage_type_6(result, ue_usage_type):
    d = result._avps[6]._data
    return d == be(ue_usage_type, 4)


def carries_route_record_7(result, route_record):
    d = result._avps[7]._data
    return d == route_record.encode('utf-8')


def carries_session_id_0(result, session_id):
    d = result._avps[0]._data
    return d == session_id


def carries_origin_host_3(result, origin_host):
    d = result._avps[3]._data
    return d == origin_host.encode('utf-8')


def carries_origin_realm_4(result, origin_realm):
    d = result._avps[4]._data
    return d == origin_realm.encode('utf-8')


def carries_destination_host_5(result, destination_host):
    d = result._avps[5]._data
    return d == destination_host.encode('utf-8')


def carries_destination_realm_6(result, destination_realm):
    d = result._avps[6]._data
    return d == destination_realm.encode('utf-8')


def carries_user_name_7(result, user_name):
    d = result._avps[7]._data
    return d == user_name.encode('utf-8')


def carries_visited_plmn_id_8(result, visited_plmn_id):
    d = result._avps[8]._data
    return d == visited_plmn_id.encode('utf-8')


def carries_air_flags_9(result, air_flags):
    d = result._avps[9]._data
    return d == be(air_flags, 4)


def carries_route_record_10(result, route_record):
    d = result._avps[10]._data
    return d == route_record.encode('utf-8')


def carries_session_id_0(result, session_id):
    d = result._avps[0]._data
    return d == session_id


def carries_result_code_2(result, result_code):
    d = result._avps[2]._data
    return d == be(result_code, 4)


def carries_origin_host_4(result, origin_host):
    d = result._avps[4]._data
    return d == origin_host.encode('utf-8')


def carries_origin_realm_5(result, origin_realm):
    d = result._avps[5]._data
    return d == origin_realm.encode('utf-8')


def carries_route_record_6(result, route_record):
    d = result._avps[6]._data
    return d == route_record.encode('utf-8')


def carries_session_id_0(result, session_id):
    d = result._avps[0]._data
    return d == session_id


def carries_origin_host_3(result, origin_host):
    d = result._avps[3]._data
    return d == origin_host.encode('utf-8')


def carries_origin_realm_4(result, origin_realm):
    d = result._avps[4]._data
    return d == origin_realm.encode('utf-8')


def carries_destination_host_5(result, destination_host):
    d = result._avps[5]._data
    return d == destination_host.encode('utf-8')


def carries_destination_realm_6(result, destination_realm):
    d = result._avps[6]._data
    return d == destination_realm.encode('utf-8')


def carries_user_name_7(result, user_name):
    d = result._avps[7]._data
    return d == user_name.encode('utf-8')


def carries_clr_flags_9(result, clr_flags):
    d = result._avps[9]._data
    return d == be(clr_flags, 4)


def carries_route_record_10(result, route_record):
    d = result._avps[10]._data
    return d == route_record.encode('utf-8')


def carries_session_id_0(result, session_id):
    d = result._avps[0]._data
    return d == session_id


def carries_result_code_2(result, result_code):
    d = result._avps[2]._data
    return d == be(result_code, 4)


def carries_origin_host_4(result, origin_host):
    d = result._avps[4]._data
    return d == origin_host.encode('utf-8')


def carries_origin_realm_5(result, origin_realm):
    d = result._avps[5]._data
    return d == origin_realm.encode('utf-8')


def carries_route_record_6(result, route_record):
    d = result._avps[6]._data
    return d == route_record.encode('utf-8')


def carries_session_id_0(result, session_id):
    d = result._avps[0]._data
    return d == session_id


def carries_origin_host_3(result, origin_host):
    d = result._avps[3]._data
    return d == origin_host.encode('utf-8')


def carries_origin_realm_4(result, origin_realm):
    d = result._avps[4]._data
    return d == origin_realm.encode('utf-8')


def carries_destination_host_5(result, destination_host):
    d = result._avps[5]._data
    return d == destination_host.encode('utf-8')


def carries_destination_realm_6(result, destination_realm):
    d = result._avps[6]._data
    return d == destination_realm.encode('utf-8')


def carries_user_name_7(result, user_name):
    d = result._avps[7]._data
    return d == user_name.encode('utf-8')


def carries_visited_network_identifier_8(result, visited_network_identifier):
    d = result._avps[8]._data
    return d == visited_network_identifier.encode('utf-8')


def carries_context_identifier_9(result, context_identifier):
    d = result._avps[9]._data
    return d == be(context_identifier, 4)


def carries_service_selection_10(result, service_selection):
    d = result._avps[10]._data
    return d == service_selection.encode('utf-8')


def carries_nor_flags_11(result, nor_flags):
    d = result._avps[11]._data
    return d == be(nor_flags, 4)


def carries_route_record_12(result, route_record):
    d = result._avps[12]._data
    return d == route_record.encode('utf-8')


def carries_session_id_0(result, session_id):
    d = result._avps[0]._data
    return d == session_id


def carries_result_code_2(result, result_code):
    d = result._avps[2]._data
    return d == be(result_code, 4)


def carries_origin_host_4(result, origin_host):
    d = result._avps[4]._data
    return d == origin_host.encode('utf-8')


def carries_origin_realm_5(result, origin_realm):
    d = result._avps[5]._data
    return d == origin_realm.encode('utf-8')


def carries_pua_flags_6(result, pua_flags):
    d = result._avps[6]._data
    return d == be(pua_flags, 4)


def carries_route_record_7(result, route_record):
    d = result._avps[7]._data
    return d == route_record.encode('utf-8')


def carries_session_id_0(result, session_id):
    d = result._avps[0]._data
    return d == session_id


def carries_origin_host_3(result, origin_host):
    d = result._avps[3]._data
    return d == origin_host.encode('utf-8')


def carries_origin_realm_4(result, origin_realm):
    d = result._avps[4]._data
    return d == origin_realm.encode('utf-8')


def carries_destination_host_5(result, destination_host):
    d = result._avps[5]._data
    return d == destination_host.encode('utf-8')


def carries_destination_realm_6(result, destination_realm):
    d = result._avps[6]._data
    return d == destination_realm.encode('utf-8')


def carries_user_name_7(result, user_name):
    d = result._avps[7]._data
    return d == user_name.encode('utf-8')


def carries_pur_flags_8(result, pur_flags):
    d = result._avps[8]._data
    return d == be(pur_flags, 4)


def carries_route_record_9(result, route_record):
    d = result._avps[9]._data
    return d == route_record.encode('utf-8')


def carries_session_id_0(result, session_id):
    d = result._avps[0]._data
    return d == session_id


def carries_result_code_2(result, result_code):
    d = result._avps[2]._data
    return d == be(result_code, 4)


def carries_origin_host_4(result, origin_host):
    d = result._avps[4]._data
    return d == origin_host.encode('utf-8')


def carries_origin_realm_5(result, origin_realm):
    d = result._avps[5]._data
    return d == origin_realm.encode('utf-8')


def carries_ula_flags_6(result, ula_flags):
    d = result._avps[6]._data
    return d == be(ula_flags, 4)


def carries_route_record_7(result, route_record):
    d = result._avps[7]._data
    return d == route_record.encode('utf-8')


def carries_session_id_0(result, session_id):
    d = result._avps[0]._data
    return d == session_id


def carries_origin_host_3(result, origin_host):
    d = result._avps[3]._data
    return d == origin_host.encode('utf-8')


def carries_origin_realm_4(result, origin_realm):
    d = result._avps[4]._data
    return d == origin_realm.encode('utf-8')


def carries_destination_host_5(result, destination_host):
    d = result._avps[5]._data
    return d == destination_host.encode('utf-8')


def carries_destination_realm_6(result, destination_realm):
    d = result._avps[6]._data
    return d == destination_realm.encode('utf-8')


def carries_user_name_7(result, user_name):
    d = result._avps[7]._data
    return d == user_name.encode('utf-8')


def carries_ulr_flags_9(result, ulr_flags):
    d = result._avps[9]._data
    return d == be(ulr_flags, 4)


def carries_visited_plmn_id_10(result, visited_plmn_id):
    d = result._avps[10]._data
    return d == visited_plmn_id.encode('utf-8')


def carries_route_record_11(result, route_record):
    d = result._avps[11]._data
    return d == route_record.encode('utf-8')


def carries_session_id_0(result, session_id):
    d = result._avps[0]._data
    return d == session_id


def carries_auth_application_id_1(result, auth_application_id):
    d = result._avps[1]._data
    return d == auth_application_id


def carries_result_code_3(result, result_code):
    d = result._avps[3]._data
    return d == be(result_code, 4)


def carries_origin_host_4(result, origin_host):
    d = result._avps[4]._data
    return d == origin_host.encode('utf-8')


def carries_origin_realm_5(result, origin_realm):
    d = result._avps[5]._data
    return d == origin_realm.encode('utf-8')


def carries_session_timeout_6(result, session_timeout):
    d = result._avps[6]._data
    return d == be(session_timeout, 4)


def carries_session_id_0(result, session_id):
    d = result._avps[0]._data
    return d == session_id


def carries_auth_application_id_1(result, auth_application_id):
    d = result._avps[1]._data
    return d == auth_application_id


def carries_origin_host_2(result, origin_host):
    d = result._avps[2]._data
    return d == origin_host.encode('utf-8')


def carries_origin_realm_3(result, origin_realm):
    d = result._avps[3]._data
    return d == origin_realm.encode('utf-8')


def carries_destination_realm_4(result, destination_realm):
    d = result._avps[4]._data
    return d == destination_realm.encode('utf-8')


def carries_user_name_6(result, user_name):
    d = result._avps[6]._data
    return d == user_name.encode('utf-8')


def carries_visited_network_identifier_7(result, visited_network_identifier):
    d = result._avps[7]._data
    return d == visited_network_identifier.encode('utf-8')


def carries_service_selection_8(result, service_selection):
    d = result._avps[8]._data
    return d == service_selection.encode('utf-8')


def carries_session_id_0(result, session_id):
    d = result._avps[0]._data
    return d == session_id


def carries_result_code_1(result, result_code):
    d = result._avps[1]._data
    return d == be(result_code, 4)


def carries_origin_host_2(result, origin_host):
    d = result._avps[2]._data
    return d == origin_host.encode('utf-8')


def carries_origin_realm_3(result, origin_realm):
    d = result._avps[3]._data
    return d == origin_realm.encode('utf-8')


def carries_session_id_0(result, session_id):
    d = result._avps[0]._data
    return d == session_id


def carries_origin_host_1(result, origin_host):
    d = result._avps[1]._data
    return d == origin_host.encode('utf-8')


def carries_origin_realm_2(result, origin_realm):
    d = result._avps[2]._data
    return d == origin_realm.encode('utf-8')


def carries_destination_realm_3(result, destination_realm):
    d = result._avps[3]._data
    return d == destination_realm.encode('utf-8')


def carries_destination_host_4(result, destination_host):
    d = result._avps[4]._data
    return d == destination_host.encode('utf-8')


def carries_auth_application_id_5(result, auth_application_id):
    d = result._avps[5]._data
    return d == auth_application_id


def carries_user_name_6(result, user_name):
    d = result._avps[6]._data
    return d == user_name.encode('utf-8')


def carries_session_id_0(result, session_id):
    d = result._avps[0]._data
    return d == session_id


def carries_auth_application_id_1(result, auth_application_id):
    d = result._avps[1]._data
    return d == auth_application_id


def carries_result_code_3(result, result_code):
    d = result._avps[3]._data
    return d == be(result_code, 4)


def carries_origin_host_4(result, origin_host):
    d = result._avps[4]._data
    return d == origin_host.encode('utf-8')


def carries_origin_realm_5(result, origin_realm):
    d = result._avps[5]._data
    return d == origin_realm.encode('utf-8')


def carries_user_name_6(result, user_name):
    d = result._avps[6]._data
    return d == user_name.encode('utf-8')


def carries_eap_master_session_key_7(result, eap_master_session_key):
    d = result._avps[7]._data
    return d == eap_master_session_key.encode('utf-8')


def carries_mobile_node_identifier_8(result, mobile_node_identifier):
    d = result._avps[8]._data
    return d == mobile_node_identifier.encode('utf-8')


def carries_session_timeout_9(result, session_timeout):
    d = result._avps[9]._data
    return d == be(session_timeout, 4)


def carries_x3gpp_charging_characteristics_10(result, x3gpp_charging_characteristics):
    d = result._avps[10]._data
    return d == x3gpp_charging_characteristics.encode('utf-8')


def carries_session_id_0(result, session_id):
    d = result._avps[0]._data
    return d == session_id


def carries_result_code_2(result, result_code):
    d = result._avps[2]._data
    return d == be(result_code, 4)


def carries_origin_host_4(result, origin_host):
    d = result._avps[4]._data
    return d == origin_host.encode('utf-8')


def carries_origin_realm_5(result, origin_realm):
    d = result._avps[5]._data
    return d == origin_realm.encode('utf-8')


def carries_user_name_6(result, user_name):
    d = result._avps[6]._data
    return d == user_name.encode('utf-8')


def carries_sip_number_auth_items_7(result, sip_number_auth_items):
    d = result._avps[7]._data
    return d == be(sip_number_auth_items, 4)


def carries_session_id_0(result, session_id):
    d = result._avps[0]._data
    return d == session_id


def carries_origin_host_3(result, origin_host):
    d = result._avps[3]._data
    return d == origin_host.encode('utf-8')


def carries_origin_realm_4(result, origin_realm):
    d = result._avps[4]._data
    return d == origin_realm.encode('utf-8')


def carries_destination_realm_5(result, destination_realm):
    d = result._avps[5]._data
    return d == destination_realm.encode('utf-8')


def carries_destination_host_6(result, destination_host):
    d = result._avps[6]._data
    return d == destination_host.encode('utf-8')


def carries_user_name_7(result, user_name):
    d = result._avps[7]._data
    return d == user_name.encode('utf-8')


def carries_visited_network_identifier_8(result, visited_network_identifier):
    d = result._avps[8]._data
    return d == visited_network_identifier.encode('utf-8')


def carries_sip_number_auth_items_10(result, sip_number_auth_items):
    d = result._avps[10]._data
    return d == be(sip_number_auth_items, 4)


def carries_session_id_0(result, session_id):
    d = result._avps[0]._data
    return d == session_id


def carries_result_code_2(result, result_code):
    d = result._avps[2]._data
    return d == be(result_code, 4)


def carries_origin_host_4(result, origin_host):
    d = result._avps[4]._data
    return d == origin_host.encode('utf-8')


def carries_origin_realm_5(result, origin_realm):
    d = result._avps[5]._data
    return d == origin_realm.encode('utf-8')


def carries_session_id_0(result, session_id):
    d = result._avps[0]._data
    return d == session_id


def carries_origin_host_3(result, origin_host):
    d = result._avps[3]._data
    return d == origin_host.encode('utf-8')


def carries_origin_realm_4(result, origin_realm):
    d = result._avps[4]._data
    return d == origin_realm.encode('utf-8')


def carries_destination_host_5(result, destination_host):
    d = result._avps[5]._data
    return d == destination_host.encode('utf-8')


def carries_destination_realm_6(result, destination_realm):
    d = result._avps[6]._data
    return d == destination_realm.encode('utf-8')


def carries_user_name_7(result, user_name):
    d = result._avps[7]._data
    return d == user_name.encode('utf-8')


def carries_session_id_0(result, session_id):
    d = result._avps[0]._data
    return d == session_id


def carries_result_code_2(result, result_code):
    d = result._avps[2]._data
    return d == be(result_code, 4)


def carries_origin_host_4(result, origin_host):
    d = result._avps[4]._data
    return d == origin_host.encode('utf-8')


def carries_origin_realm_5(result, origin_realm):
    d = result._avps[5]._data
    return d == origin_realm.encode('utf-8')


def carries_user_name_6(result, user_name):
    d = result._avps[6]._data
    return d == user_name.encode('utf-8')


def carries_session_id_0(result, session_id):
    d = result._avps[0]._data
    return d == session_id


def carries_origin_host_3(result, origin_host):
    d = result._avps[3]._data
    return d == origin_host.encode('utf-8')


def carries_origin_realm_4(result, origin_realm):
    d = result._avps[4]._data
    return d == origin_realm.encode('utf-8')


def carries_destination_host_5(result, destination_host):
    d = result._avps[5]._data
    return d == destination_host.encode('utf-8')


def carries_destination_realm_6(result, destination_realm):
    d = result._avps[6]._data
    return d == destination_realm.encode('utf-8')


def carries_service_selection_7(result, service_selection):
    d = result._avps[7]._data
    return d == service_selection.encode('utf-8')


def carries_context_identifier_8(result, context_identifier):
    d = result._avps[8]._data
    return d == be(context_identifier, 4)


def carries_visited_network_identifier_9(result, visited_network_identifier):
    d = result._avps[9]._data
    return d == visited_network_identifier.encode('utf-8')


def carries_user_name_10(result, user_name):
    d = result._avps[10]._data
    return d == user_name.encode('utf-8')


def carries_session_id_0(result, session_id):
    d = result._avps[0]._data
    return d == session_id


def carries_result_code_1(result, result_code):
    d = result._avps[1]._data
    return d == be(result_code, 4)


def carries_origin_host_2(result, origin_host):
    d = result._avps[2]._data
    return d == origin_host.encode('utf-8')


def carries_origin_realm_3(result, origin_realm):
    d = result._avps[3]._data
    return d == origin_realm.encode('utf-8')


def carries_user_name_4(result, user_name):
    d = result._avps[4]._data
    return d == user_name.encode('utf-8')


def carries_origin_state_id_5(result, origin_state_id):
    d = result._avps[5]._data
    return d == be(origin_state_id, 4)


def carries_error_message_6(result, error_message):
    d = result._avps[6]._data
    return d == error_message.encode('utf-8')


def carries_error_reporting_host_7(result, error_reporting_host):
    d = result._avps[7]._data
    return d == error_reporting_host.encode('utf-8')


def carries_redirect_max_cache_time_8(result, redirect_max_cache_time):
    d = result._avps[8]._data
    return d == be(redirect_max_cache_time, 4)


def carries_session_id_0(result, session_id):
    d = result._avps[0]._data
    return d == session_id


def carries_origin_host_1(result, origin_host):
    d = result._avps[1]._data
    return d == origin_host.encode('utf-8')


def carries_origin_realm_2(result, origin_realm):
    d = result._avps[2]._data
    return d == origin_realm.encode('utf-8')


def carries_destination_realm_3(result, destination_realm):
    d = result._avps[3]._data
    return d == destination_realm.encode('utf-8')


def carries_destination_host_4(result, destination_host):
    d = result._avps[4]._data
    return d == destination_host.encode('utf-8')


def carries_user_name_6(result, user_name):
    d = result._avps[6]._data
    return d == user_name.encode('utf-8')


def carries_origin_state_id_7(result, origin_state_id):
    d = result._avps[7]._data
    return d == be(origin_state_id, 4)


def carries_route_record_8(result, route_record):
    d = result._avps[8]._data
    return d == route_record.encode('utf-8')


def carries_result_code_0(result, result_code):
    d = result._avps[0]._data
    return d == be(result_code, 4)


def carries_origin_host_1(result, origin_host):
    d = result._avps[1]._data
    return d == origin_host.encode('utf-8')


def carries_origin_realm_2(result, origin_realm):
    d = result._avps[2]._data
    return d == origin_realm.encode('utf-8')


def carries_vendor_id_4(result, vendor_id):
    d = result._avps[4]._data
    return d == be(vendor_id, 4)


def carries_product_name_5(result, product_name):
    d = result._avps[5]._data
    return d == product_name.encode('utf-8')


def carries_origin_state_id_6(result, origin_state_id):
    d = result._avps[6]._data
    return d == be(origin_state_id, 4)


def carries_error_message_7(result, error_message):
    d = result._avps[7]._data
    return d == error_message.encode('utf-8')


def carries_supported_vendor_id_8(result, supported_vendor_id):
    d = result._avps[8]._data
    return d == be(supported_vendor_id, 4)


def carries_auth_application_id_9(result, auth_application_id):
    d = result._avps[9]._data
    return d == auth_application_id


def carries_inband_security_id_10(result, inband_security_id):
    d = result._avps[10]._data
    return d == be(inband_security_id, 4)


def carries_acct_application_id_11(result, acct_application_id):
    d = result._avps[11]._data
    return d == be(acct_application_id, 4)


def carries_firmware_revision_12(result, firmware_revision):
    d = result._avps[12]._data
    return d == be(firmware_revision, 4)


def carries_origin_host_0(result, origin_host):
    d = result._avps[0]._data
    return d == origin_host.encode('utf-8')


def carries_origin_realm_1(result, origin_realm):
    d = result._avps[1]._data
    return d == origin_realm.encode('utf-8')


def carries_vendor_id_3(result, vendor_id):
    d = result._avps[3]._data
    return d == be(vendor_id, 4)


def carries_product_name_4(result, product_name):
    d = result._avps[4]._data
    return d == product_name.encode('utf-8')


def carries_origin_state_id_5(result, origin_state_id):
    d = result._avps[5]._data
    return d == be(origin_state_id, 4)


def carries_supported_vendor_id_6(result, supported_vendor_id):
    d = result._avps[6]._data
    return d == be(supported_vendor_id, 4)


def carries_inband_security_id_7(result, inband_security_id):
    d = result._avps[7]._data
    return d == be(inband_security_id, 4)


def carries_acct_application_id_8(result, acct_application_id):
    d = result._avps[8]._data
    return d == be(acct_application_id, 4)


def carries_firmware_revision_9(result, firmware_revision):
    d = result._avps[9]._data
    return d == be(firmware_revision, 4)


def carries_result_code_0(result, result_code):
    d = result._avps[0]._data
    return d == be(result_code, 4)


def carries_origin_host_1(result, origin_host):
    d = result._avps[1]._data
    return d == origin_host.encode('utf-8')


def carries_origin_realm_2(result, origin_realm):
    d = result._avps[2]._data
    return d == origin_realm.encode('utf-8')


def carries_error_message_3(result, error_message):
    d = result._avps[3]._data
    return d == error_message.encode('utf-8')


def carries_origin_state_id_4(result, origin_state_id):
    d = result._avps[4]._data
    return d == be(origin_state_id, 4)


def carries_origin_host_0(result, origin_host):
    d = result._avps[0]._data
    return d == origin_host.encode('utf-8')


def carries_origin_realm_1(result, origin_realm):
    d = result._avps[1]._data
    return d == origin_realm.encode('utf-8')


def carries_origin_state_id_2(result, origin_state_id):
    d = result._avps[2]._data
    return d == be(origin_state_id, 4)


def carries_result_code_0(result, result_code):
    d = result._avps[0]._data
    return d == be(result_code, 4)


def carries_origin_host_1(result, origin_host):
    d = result._avps[1]._data
    return d == origin_host.encode('utf-8')


def carries_origin_realm_2(result, origin_realm):
    d = result._avps[2]._data
    return d == origin_realm.encode('utf-8')


def carries_error_message_3(result, error_message):
    d = result._avps[3]._data
    return d == error_message.encode('utf-8')


def carries_origin_host_0(result, origin_host):
    d = result._avps[0]._data
    return d == origin_host.encode('utf-8')


def carries_origin_realm_1(result, origin_realm):
    d = result._avps[1]._data
    return d == origin_realm.encode('utf-8')


def carries_session_id_0(result, session_id):
    d = result._avps[0]._data
    return d == session_id


def carries_result_code_1(result, result_code):
    d = result._avps[1]._data
    return d == be(result_code, 4)


def carries_origin_host_2(result, origin_host):
    d = result._avps[2]._data
    return d == origin_host.encode('utf-8')


def carries_origin_realm_3(result, origin_realm):
    d = result._avps[3]._data
    return d == origin_realm.encode('utf-8')


def carries_user_name_4(result, user_name):
    d = result._avps[4]._data
    return d == user_name.encode('utf-8')


def carries_origin_state_id_5(result, origin_state_id):
    d = result._avps[5]._data
    return d == be(origin_state_id, 4)


def carries_error_message_6(result, error_message):
    d = result._avps[6]._data
    return d == error_message.encode('utf-8')


def carries_error_reporting_host_7(result, error_reporting_host):
    d = result._avps[7]._data
    return d == error_reporting_host.encode('utf-8')


def carries_redirect_max_cache_time_8(result, redirect_max_cache_time):
    d = result._avps[8]._data
    return d == be(redirect_max_cache_time, 4)


def carries_session_id_0(result, session_id):
    d = result._avps[0]._data
    return d == session_id


def carries_origin_host_1(result, origin_host):
    d = result._avps[1]._data
    return d == origin_host.encode('utf-8')


def carries_origin_realm_2(result, origin_realm):
    d = result._avps[2]._data
    return d == origin_realm.encode('utf-8')


def carries_destination_realm_3(result, destination_realm):
    d = result._avps[3]._data
    return d == destination_realm.encode('utf-8')


def carries_destination_host_4(result, destination_host):
    d = result._avps[4]._data
    return d == destination_host.encode('utf-8')


def carries_user_name_7(result, user_name):
    d = result._avps[7]._data
    return d == user_name.encode('utf-8')


def carries_origin_state_id_8(result, origin_state_id):
    d = result._avps[8]._data
    return d == be(origin_state_id, 4)


def carries_route_record_9(result, route_record):
    d = result._avps[9]._data
    return d == route_record.encode('utf-8')


def carries_session_id_0(result, session_id):
    d = result._avps[0]._data
    return d == session_id


def carries_result_code_1(result, result_code):
    d = result._avps[1]._data
    return d == be(result_code, 4)


def carries_origin_host_2(result, origin_host):
    d = result._avps[2]._data
    return d == origin_host.encode('utf-8')


def carries_origin_realm_3(result, origin_realm):
    d = result._avps[3]._data
    return d == origin_realm.encode('utf-8')


def carries_user_name_4(result, user_name):
    d = result._avps[4]._data
    return d == user_name.encode('utf-8')


def carries__class_5(result, _class):
    d = result._avps[5]._data
    return d == _class.encode('utf-8')


def carries_error_message_6(result, error_message):
    d = result._avps[6]._data
    return d == error_message.encode('utf-8')


def carries_error_reporting_host_7(result, error_reporting_host):
    d = result._avps[7]._data
    return d == error_reporting_host.encode('utf-8')


def carries_origin_state_id_8(result, origin_state_id):
    d = result._avps[8]._data
    return d == be(origin_state_id, 4)


def carries_redirect_max_cache_time_9(result, redirect_max_cache_time):
    d = result._avps[9]._data
    return d == be(redirect_max_cache_time, 4)


def carries_session_id_0(result, session_id):
    d = result._avps[0]._data
    return d == session_id


def carries_origin_host_1(result, origin_host):
    d = result._avps[1]._data
    return d == origin_host.encode('utf-8')


def carries_origin_realm_2(result, origin_realm):
    d = result._avps[2]._data
    return d == origin_realm.encode('utf-8')


def carries_destination_realm_3(result, destination_realm):
    d = result._avps[3]._data
    return d == destination_realm.encode('utf-8')


def carries_auth_application_id_4(result, auth_application_id):
    d = result._avps[4]._data
    return d == auth_application_id


def carries_user_name_6(result, user_name):
    d = result._avps[6]._data
    return d == user_name.encode('utf-8')


def carries_destination_host_7(result, destination_host):
    d = result._avps[7]._data
    return d == destination_host.encode('utf-8')


def carries__class_8(result, _class):
    d = result._avps[8]._data
    return d == _class.encode('utf-8')


def carries_origin_state_id_9(result, origin_state_id):
    d = result._avps[9]._data
    return d == be(origin_state_id, 4)


def carries_route_record_10(result, route_record):
    d = result._avps[10]._data
    return d == route_record.encode('utf-8')

