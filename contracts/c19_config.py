"""C19 -- a configuration is reflected faithfully or rejected, never silently altered.

Dictionary path: _convert_config_to_connection_obj is proved for every key ORDER (loop invariant
over an arbitrary-order iteration with a ghost 'seen' map; no permutation is enumerated) and, key by
key, for every typed value of that key while the other eleven hold arbitrary well-typed values.
Claimed value domain: MODE/TRANSPORT_TYPE any str, int, None or other object; IPv4 addresses any
str (parsing is ipaddress', assumed); WATCHDOG_TIMEOUT any int/str/None/object (bool excluded as the
statement says); APPLICATIONS a list of 0..2 dicts with bytes or non-bytes entries.
"""
from pyvc.api import contract, T, Loop
from pyvc.spec import implies, is_instance_of, ghost_get
import ipaddress
import bromelia._internal_utils as IU
from bromelia.exceptions import InvalidConfigKey, InvalidConfigValue

KEYS = list(IU.config_mask)


def app_shape(ok=True):
    if ok:
        return T.DictOf(vendor_id=T.Bytes(4), app_id=T.Bytes(4))
    return T.DictOf(vendor_id=T.Bytes(4), app_id=T.Int())


VALID = {
    "MODE": lambda: T.OneOf(T.Const("CLIENT"), T.Const("SERVER")),
    "TRANSPORT_TYPE": lambda: T.OneOf(T.Const("TCP"), T.Const("SCTP")),
    "APPLICATIONS": lambda: T.OneOf(T.ListOf(), T.ListOf(app_shape())),
    "LOCAL_NODE_HOSTNAME": lambda: T.Str(), "LOCAL_NODE_REALM": lambda: T.Str(),
    "LOCAL_NODE_IP_ADDRESS": lambda: T.Str(), "LOCAL_NODE_PORT": lambda: T.Int(),
    "PEER_NODE_HOSTNAME": lambda: T.Str(), "PEER_NODE_REALM": lambda: T.Str(),
    "PEER_NODE_IP_ADDRESS": lambda: T.Str(), "PEER_NODE_PORT": lambda: T.Int(),
    "WATCHDOG_TIMEOUT": lambda: T.Int(),
}
ANY = {
    "MODE": lambda: T.OneOf(T.Str(), T.Int(), T.NoneS, T.OpaqueS()),
    "TRANSPORT_TYPE": lambda: T.OneOf(T.Str(), T.Int(), T.NoneS, T.OpaqueS()),
    "APPLICATIONS": lambda: T.OneOf(T.ListOf(), T.ListOf(app_shape()), T.ListOf(app_shape(), app_shape()),
                                    T.ListOf(app_shape(False)), T.NoneS,
                                    T.ListOf(T.DictOf(other=T.Bytes(4)))),
    "LOCAL_NODE_HOSTNAME": lambda: T.OneOf(T.Str(), T.NoneS, T.Int()),
    "LOCAL_NODE_REALM": lambda: T.OneOf(T.Str(), T.NoneS),
    "LOCAL_NODE_IP_ADDRESS": lambda: T.Str(),
    "LOCAL_NODE_PORT": lambda: T.OneOf(T.Int(), T.Str(), T.NoneS),
    "PEER_NODE_HOSTNAME": lambda: T.OneOf(T.Str(), T.NoneS),
    "PEER_NODE_REALM": lambda: T.OneOf(T.Str(), T.NoneS),
    "PEER_NODE_IP_ADDRESS": lambda: T.Str(),
    "PEER_NODE_PORT": lambda: T.OneOf(T.Int(), T.Str(), T.NoneS),
    "WATCHDOG_TIMEOUT": lambda: T.OneOf(T.Int(), T.Str(), T.NoneS, T.OpaqueS()),
}


def is_ipv4(v):
    """v denotes an IPv4 address for ipaddress.IPv4Address"""
    try:
        ipaddress.IPv4Address(v)
    except ipaddress.AddressValueError:
        return False
    return True


def apps_ok(v):
    if not v:
        return True
    for app in v:
        found = False
        for k in app.keys():
            if k == "vendor_id" or k == "app_id":
                found = True
        if not found:
            return False
        for k in app.keys():
            if not isinstance(app[k], bytes):
                return False
    return True


def acceptable(key, v):
    """the values the statement allows to be accepted for `key`"""
    if key == "MODE":
        return v == "CLIENT" or v == "SERVER"
    if key == "TRANSPORT_TYPE":
        return v == "TCP" or v == "SCTP"
    if key == "APPLICATIONS":
        return apps_ok(v)
    if key == "LOCAL_NODE_IP_ADDRESS" or key == "PEER_NODE_IP_ADDRESS":
        return is_ipv4(v)
    if key == "WATCHDOG_TIMEOUT":
        return isinstance(v, int)
    return True


WRITES = {"MODE": ["mode"], "TRANSPORT_TYPE": ["transport_type"], "APPLICATIONS": ["application_ids"],
          "LOCAL_NODE_HOSTNAME": ["local_node_host_name"], "LOCAL_NODE_REALM": ["local_node_realm"],
          "LOCAL_NODE_IP_ADDRESS": ["local_node_ip_address"], "LOCAL_NODE_PORT": ["local_node_port"],
          "PEER_NODE_HOSTNAME": ["peer_node_host_name"], "PEER_NODE_REALM": ["peer_node_realm"],
          "PEER_NODE_IP_ADDRESS": ["peer_node_ip_address"], "PEER_NODE_PORT": ["peer_node_port"],
          "WATCHDOG_TIMEOUT": ["watchdog_timeout"]}
CFG_LOOP = Loop(any_order=True, writes=WRITES, temps=("app", "app_keys"))


def all_acceptable(config):
    ok = True
    for k in KEYS:
        ok = ok and acceptable(k, config[k])
    return ok


def same_value(a, b):
    if a is b:
        return True
    if type(a) is not type(b):
        return False
    return a == b


def _focus_contract(focus):
    shapes = {k: (ANY[k]() if k == focus else VALID[k]()) for k in KEYS}

    @contract("bromelia._internal_utils._convert_config_to_connection_obj", prop="C19", name="key:" + focus)
    class _C:
        args = {"config": T.DictOf(**shapes)}
        # loop 1 is `for key, value in config.items()`: proved order independent by non-interference
        loops = {1: CFG_LOOP}

        def ensures_faithful(config, result):
            return (same_value(result.mode, config["MODE"])
                    and same_value(result.transport_type, config["TRANSPORT_TYPE"])
                    and result.application_ids is config["APPLICATIONS"]
                    and same_value(result.local_node.host_name, config["LOCAL_NODE_HOSTNAME"])
                    and same_value(result.local_node.realm, config["LOCAL_NODE_REALM"])
                    and same_value(result.local_node.ip_address, config["LOCAL_NODE_IP_ADDRESS"])
                    and same_value(result.local_node.port, config["LOCAL_NODE_PORT"])
                    and same_value(result.peer_node.host_name, config["PEER_NODE_HOSTNAME"])
                    and same_value(result.peer_node.realm, config["PEER_NODE_REALM"])
                    and same_value(result.peer_node.ip_address, config["PEER_NODE_IP_ADDRESS"])
                    and same_value(result.peer_node.port, config["PEER_NODE_PORT"])
                    and same_value(result.watchdog_timeout, config["WATCHDOG_TIMEOUT"]))

        def ensures_only_acceptable_values_accepted(config):
            return all_acceptable(config)

        def exceptional(config, exc):
            return (is_instance_of(exc, InvalidConfigValue) or is_instance_of(exc, InvalidConfigKey)) \
                and not all_acceptable(config)

        def control_everything_rejected(config):
            return False
    return _C


for _k in KEYS:
    _focus_contract(_k)


@contract("bromelia._internal_utils._convert_config_to_connection_obj", prop="C19", name="unknown-key")
class _UnknownKey:
    """an unknown extra key is rejected with InvalidConfigKey"""
    args = {"config": T.DictOf(**dict({k: VALID[k]() for k in KEYS}, BOGUS_KEY=T.Int()))}
    loops = {1: CFG_LOOP}

    def ensures_never_accepted():
        return False

    def exceptional(exc):
        return is_instance_of(exc, InvalidConfigKey)


# =========================================================================================
#  YAML spec -> list of configuration dictionaries
# =========================================================================================
from pyvc.spec import ghost_set, yaml_file                         # noqa: E402

VARS = {"VENDOR_A": b"\x00\x00\x28\xaf", "APP_A": b"\x01\x00\x00\x23", "APP_B": b"\x01\x00\x00\x30"}


def _entry(transport, napps):
    apps = [T.DictOf(vendor_id=T.Const("VENDOR_A"), app_id=T.OneOf(T.Const("APP_A"), T.Const("APP_B")))
            for _ in range(napps)]
    d = dict(mode=T.Str(), applications=T.ListOf(*apps),
             local=T.DictOf(hostname=T.Str(), realm=T.Str(), ip_address=T.Str(), port=T.Int()),
             peer=T.DictOf(hostname=T.Str(), realm=T.Str(), ip_address=T.Str(), port=T.Int()),
             watchdog_timeout=T.Int())
    if transport == "given":
        d["transport_type"] = T.Str(minlen=1)
    elif transport == "none":
        d["transport_type"] = T.NoneS
    return T.DictOf(**d)


def load_yaml(doc):
    ghost_set("yaml_doc", doc)
    return IU._convert_file_to_config(yaml_file(doc), VARS)


def expected_transport(spec):
    if "transport_type" in spec and spec["transport_type"]:
        return spec["transport_type"].upper()
    return "TCP"


def entry_matches(cfg, spec, names):
    ok = (cfg["MODE"] == spec["mode"].upper() and cfg["TRANSPORT_TYPE"] == expected_transport(spec)
          and cfg["LOCAL_NODE_HOSTNAME"] == spec["local"]["hostname"]
          and cfg["LOCAL_NODE_REALM"] == spec["local"]["realm"]
          and cfg["LOCAL_NODE_IP_ADDRESS"] == spec["local"]["ip_address"]
          and cfg["LOCAL_NODE_PORT"] == spec["local"]["port"]
          and cfg["PEER_NODE_HOSTNAME"] == spec["peer"]["hostname"]
          and cfg["PEER_NODE_REALM"] == spec["peer"]["realm"]
          and cfg["PEER_NODE_IP_ADDRESS"] == spec["peer"]["ip_address"]
          and cfg["PEER_NODE_PORT"] == spec["peer"]["port"]
          and cfg["WATCHDOG_TIMEOUT"] == spec["watchdog_timeout"]
          and len(cfg["APPLICATIONS"]) == len(names))
    i = 0
    for nm in names:
        if ok:
            app = cfg["APPLICATIONS"][i]
            ok = ok and app["vendor_id"] == VARS[nm[0]] and app["app_id"] == VARS[nm[1]]
        i = i + 1
    return ok


def app_names(spec):
    # constant NAMES as they stand in the document before resolution (the loader rewrites in place)
    return [(a["vendor_id"], a["app_id"]) for a in spec["applications"]]


def remember_names(doc):
    return ghost_set("names", [app_names(sp) for sp in doc["spec"]])


def _yaml_contract(name, entries):
    @contract("bromelia._internal_utils._convert_file_to_config", prop="C19", name="yaml:" + name)
    class _Y:
        """one configuration per spec entry, in order, each built from ITS entry alone: mode and
        transport upper-cased, TCP when the entry names no transport, application constants resolved"""
        args = {"doc": T.DictOf(api_version=T.Const("v1"), name=T.Const("x"), spec=T.ListOf(*entries))}
        call = load_yaml
        setup_spec = remember_names
        bounded = "YAML spec lists of %d entries (entry contents symbolic); list lengths 1..3 are covered" % len(entries)

        def ensures_one_per_entry_in_order(doc, result):
            names = ghost_get("names")
            ok = len(result) == len(doc["spec"])
            i = 0
            for sp in doc["spec"]:
                ok = ok and entry_matches(result[i], sp, names[i])
                i = i + 1
            return ok

        def exceptional(exc):
            return False
    return _Y


_yaml_contract("1-default", [_entry("absent", 1)])
_yaml_contract("1-given", [_entry("given", 0)])
_yaml_contract("2-given-then-absent", [_entry("given", 1), _entry("absent", 0)])
_yaml_contract("2-none-then-given", [_entry("none", 2), _entry("given", 1)])
_yaml_contract("3-mixed", [_entry("given", 1), _entry("absent", 0), _entry("none", 1)])


# ------------------------------------------------------------------ bounded companion (never counted as proved)
from pyvc.api import table          # noqa: E402


@table("small-configurations", prop="C19")
def small_configurations():
    """the clauses of the per-key contracts evaluated natively on the real converter: a valid base dictionary with
    ONE key at a time set to each of a list of valid and invalid candidate values, in the dictionary's own key order
    and in reversed key order"""
    from pyvc.conform import conform
    base = {"MODE": "CLIENT", "TRANSPORT_TYPE": "TCP",
            "APPLICATIONS": [{"vendor_id": b"\x00\x00\x28\xaf", "app_id": b"\x01\x00\x00\x30"}],
            "LOCAL_NODE_HOSTNAME": "a.example", "LOCAL_NODE_REALM": "example", "LOCAL_NODE_IP_ADDRESS": "10.0.0.1",
            "LOCAL_NODE_PORT": 3868, "PEER_NODE_HOSTNAME": "b.example", "PEER_NODE_REALM": "example",
            "PEER_NODE_IP_ADDRESS": "10.0.0.2", "PEER_NODE_PORT": 3869, "WATCHDOG_TIMEOUT": 30}
    cand = {
        "MODE": ["CLIENT", "SERVER", "client", "", "PEER"],
        "TRANSPORT_TYPE": ["TCP", "SCTP", "tcp", "UDP", "X"],
        "APPLICATIONS": [[], [{"vendor_id": b"\x00\x00\x00\x00", "app_id": b"\x00\x00\x00\x01"}],
                         [{"vendor_id": b"\x00\x00\x00\x00", "app_id": 1}], [{"other": b"\x00\x00\x00\x01"}]],
        "LOCAL_NODE_HOSTNAME": ["x", ""], "LOCAL_NODE_REALM": ["r"],
        "LOCAL_NODE_IP_ADDRESS": ["127.0.0.1", "256.1.1.1", "::1", "host", "1.2.3"],
        "LOCAL_NODE_PORT": [1, 65535], "PEER_NODE_HOSTNAME": ["y"], "PEER_NODE_REALM": ["s"],
        "PEER_NODE_IP_ADDRESS": ["192.168.0.1", "192.168.0.256", ""],
        "PEER_NODE_PORT": [1, 3868], "WATCHDOG_TIMEOUT": [1, 60, 0],
    }
    out = []
    for key in KEYS:
        def inputs(key=key):
            for v in cand[key]:
                d = dict(base)
                d[key] = v
                yield {"config": d}
                yield {"config": dict(reversed(list(d.items())))}
        chk, skip, fails = conform("C19/_internal_utils._convert_config_to_connection_obj[key:%s]" % key, inputs())
        out.append(("key-" + key, not fails and chk > 0, {"checked": chk, "failing": fails}))
    # the public entry point: Diameter(config=...) goes through make_config / Config before the converter --
    # the description it ends up with carries exactly the configured values (all keys given), and a configuration
    # the converter rejects is rejected here too
    import bromelia.setup as SU
    from bromelia.exceptions import InvalidConfigKey, InvalidConfigValue
    bad, n = [], 0
    for mode, tt, wd in (("CLIENT", "TCP", 30), ("SERVER", "TCP", 1), ("CLIENT", "SCTP", 3600), ("SERVER", "SCTP", 60)):
        n += 1
        cfg = dict(base, MODE=mode, TRANSPORT_TYPE=tt, WATCHDOG_TIMEOUT=wd)
        try:
            c = SU.Diameter(config=dict(cfg))._connection
            got = (c.mode, c.transport_type, c.application_ids, c.local_node.host_name, c.local_node.realm,
                   c.local_node.ip_address, c.local_node.port, c.peer_node.host_name, c.peer_node.realm,
                   c.peer_node.ip_address, c.peer_node.port, c.watchdog_timeout)
            want = (mode, tt, cfg["APPLICATIONS"], "a.example", "example", "10.0.0.1", 3868, "b.example", "example",
                    "10.0.0.2", 3869, wd)
            if got != want:
                bad.append({"config": {k: repr(v) for k, v in cfg.items()}, "got": repr(got)})
        except BaseException as e:  # noqa
            bad.append({"config": "valid %s/%s" % (mode, tt), "raised": "%s: %s" % (type(e).__name__, e)})
    for key, val in (("MODE", "PEER"), ("TRANSPORT_TYPE", "UDP"), ("LOCAL_NODE_IP_ADDRESS", "256.1.1.1"),
                     ("WATCHDOG_TIMEOUT", "60"), ("WATCHDOG_TIMEOUT", 7.9)):
        n += 1
        try:
            SU.Diameter(config=dict(base, **{key: val}))
            bad.append({"config": "%s=%r" % (key, val), "got": "accepted"})
        except (InvalidConfigKey, InvalidConfigValue):
            pass
        except BaseException as e:  # noqa
            bad.append({"config": "%s=%r" % (key, val), "raised": type(e).__name__})
    n += 1
    try:
        SU.Diameter(config=dict(base, EXTRA_KEY=1))
        bad.append({"config": "unknown key EXTRA_KEY", "got": "accepted"})
    except (InvalidConfigKey, InvalidConfigValue):
        pass
    except BaseException as e:  # noqa
        bad.append({"config": "unknown key EXTRA_KEY", "raised": type(e).__name__})
    out.append(("diameter-entry-point-reflects-or-rejects", not bad, {"checked": n, "failing": bad[:4]}))
    return out


small_configurations.bounded = "one key at a time over 2-5 candidate values, two key orders; native evaluation of the contract clauses"
