"""Shared shapes and spec functions (views, RFC 6733 reference encoder) for the sidecar contracts."""
from pyvc.api import T
from pyvc.spec import raw, be, unbe, zeros, implies, slot, UNSET

import bromelia.base as B
from bromelia.avps.ietf.rfc6733 import ResultCodeAVP


def header_shape(**over):
    """a DiameterHeader whose seven fields have their fixed widths (valid header)"""
    f = {"_version": T.Bytes(1), "_length": T.Bytes(3), "_flags": T.Bytes(1),
         "_command_code": T.Bytes(3), "_application_id": T.Bytes(4),
         "_hop_by_hop": T.Bytes(4), "_end_to_end": T.Bytes(4)}
    f.update(over)
    return T.Obj(B.DiameterHeader, slots=f)


def result_code_avp_shape():
    return T.Obj(ResultCodeAVP,
                 slots={"_flags": T.Bytes(1), "_data": T.Bytes(4), "_vendor_id": T.NoneS,
                        "_length": T.Const((12).to_bytes(3, "big"))},
                 idict={"code": T.Const(ResultCodeAVP.code), "vendor_id": T.NoneS})


def answer_with_result_code_shape():
    """a DiameterAnswer holding exactly one AVP, a Result-Code AVP with any 4 data bytes,
    registered under its usual attribute name"""
    return T.Obj(B.DiameterAnswer,
                 idict={"_header": header_shape(), "_avps": T.ListOf(result_code_avp_shape()),
                        "_loaded": T.Const(False)},
                 alias={"result_code_avp": ("_avps", 0)})
