"""Shared shapes and spec functions (views, RFC 6733 reference encoder) for the sidecar contracts."""
from pyvc.api import T
from pyvc.spec import raw, be, unbe, zeros, implies, slot, UNSET

import bromelia.base as B
from bromelia.avps.ietf.rfc6733 import ResultCodeAVP


def header_shape(**over):
    """a DiameterHeader whose seven fields have their fixed widths (valid header)"""
    f = {"_version": T.Bytes(1), "_length": T.Bytes(3), "_flags": T.Bytes(1),
         "_command_code": T.Bytes(3), "_application_id": T.Bytes(4),
         "_hop_by_hop": T.Bytes(4), "_end_to_end": T.Bytes(4)}
    f.update(over)
    return T.Obj(B.DiameterHeader, slots=f)


def result_code_avp_shape():
    return T.Obj(ResultCodeAVP,
                 slots={"_flags": T.Bytes(1), "_data": T.Bytes(4), "_vendor_id": T.NoneS,
                        "_length": T.Const((12).to_bytes(3, "big"))},
                 idict={"code": T.Const(ResultCodeAVP.code), "vendor_id": T.NoneS})


def answer_with_result_code_shape():
    """a DiameterAnswer holding exactly one AVP, a Result-Code AVP with any 4 data bytes,
    registered under its usual attribute name"""
    return T.Obj(B.DiameterAnswer,
                 idict={"_header": header_shape(), "_avps": T.ListOf(result_code_avp_shape()),
                        "_loaded": T.Const(False)},
                 alias={"result_code_avp": ("_avps", 0)})


# =========================================================================================
#  RFC 6733 reference encoder (written from the RFC / the property statement, not the code)
# =========================================================================================
MAX24 = 16777216


def enc_avp(code, flags, vendor, data):
    """RFC 6733 section 4.1: AVP Code (4), Flags (1), AVP Length (3) = header + data WITHOUT
    padding, Vendor-ID (4) iff present, data, zero padding to a 4-byte boundary.
    `vendor` is None or 4 bytes; `data` is bytes (possibly empty)."""
    if vendor is None:
        hl = 8
    else:
        hl = 12
    n = len(data)
    pad = (4 - n % 4) % 4
    out = code + flags + be(hl + n, 3)
    if vendor is not None:
        out = out + vendor
    return out + data + zeros(pad)


def avp_len(vendor, data):
    """value of the AVP Length field"""
    if vendor is None:
        return 8 + len(data)
    return 12 + len(data)


def avp_plen(vendor, data):
    """octets the AVP occupies on the wire (length + padding)"""
    n = len(data)
    return avp_len(vendor, data) + (4 - n % 4) % 4


def data_of(a):
    """data bytes of an AVP object (None / empty -> b'')"""
    d = slot(a, "_data")
    if d is None or d is UNSET:
        return b""
    return d


def view_code(a):
    return raw(a, "code")


def view_vendor(a):
    return raw(a, "vendor_id")


def enc_of(a):
    """reference encoding of the AVP object's abstract view (code, flags, vendor, data)"""
    return enc_avp(view_code(a), a._flags, view_vendor(a), data_of(a))


def enc_hdr(version, length, flags, cmd, app, hbh, e2e):
    """RFC 6733 section 3: the 20-byte Diameter header"""
    return version + length + flags + cmd + app + hbh + e2e


# ----------------------------------------------------------------------------- AVP shapes
def stale_padding():
    """the `_padding` slot is a CACHE written by the constructor / the stream parser (the padding the AVP had
    then); it may be out of date by the time the AVP is measured or serialised: None or any 0..3 bytes"""
    return T.OneOf(T.NoneS, T.Bytes(maxlen=3))


def generic_avp_shape(data=None, vendor=None, padding=None):
    """exact DiameterAVP instance satisfying the representation invariant:
    code 4 bytes, flags 1 byte, vendor None|4 bytes, data None|bytes"""
    return T.Obj(B.DiameterAVP, slots={
        "_code": T.Bytes(4), "_flags": T.Bytes(1),
        "_vendor_id": vendor if vendor is not None else T.OneOf(T.NoneS, T.Bytes(4)),
        "_data": data if data is not None else T.OneOf(T.NoneS, T.Bytes()),
        "_padding": padding if padding is not None else T.NoneS})


def dict_avp_shape(cls=None, data=None, vendor=None, padding=None):
    """schematic dictionary-class instance: the class attributes `code`/`vendor_id` shadow the
    DiameterAVP properties, so those two live in the instance dict; everything else is inherited
    (checked for all registered classes by the C10 override scan)"""
    from bromelia.avps.ietf.rfc6733 import UserNameAVP
    return T.Obj(cls or UserNameAVP, slots={
        "_flags": T.Bytes(1),
        "_vendor_id": T.OneOf(T.NoneS, T.Bytes(4)),
        "_data": data if data is not None else T.OneOf(T.NoneS, T.Bytes()),
        "_padding": padding if padding is not None else T.NoneS},
        idict={"code": T.Bytes(4),
               "vendor_id": vendor if vendor is not None else T.OneOf(T.NoneS, T.Bytes(4))})


def any_avp_shape(padding=None):
    return T.OneOf(generic_avp_shape(padding=padding), dict_avp_shape(padding=padding))


ANY_VALUE = lambda: T.OneOf(T.Int(), T.Bytes(), T.NoneS, T.Str(), T.Bool(), T.OpaqueS())   # noqa: E731


# =========================================================================================
#  sequences of AVPs: element kind, folds, lemmas
# =========================================================================================
from pyvc.seqs import ElemKind, Field, fold           # noqa: E402
from pyvc.spec import use_lemma                       # noqa: E402
from pyvc.api import lemma                            # noqa: E402
from bromelia.avps.ietf.rfc6733 import UserNameAVP as _DictShapeClass    # noqa: E402


def avp_elem_valid(a):
    """representation invariant of a listed AVP + the 24-bit ceiling of the AVP Length field"""
    return avp_len(view_vendor(a), data_of(a)) < MAX24


AVP_ELEM = ElemKind("avp", [
    ("generic", B.DiameterAVP, {
        "_code": Field(("bytesn", 4)), "_flags": Field(("bytesn", 1)),
        "_vendor_id": Field(("opt", Field(("bytesn", 4)))),
        "_data": Field(("opt", Field(("bytes",)))), "_padding": Field(("none",))}),
    ("dict", _DictShapeClass, {
        "_flags": Field(("bytesn", 1)), "_vendor_id": Field(("opt", Field(("bytesn", 4)))),
        "_data": Field(("opt", Field(("bytes",)))), "_padding": Field(("none",)),
        "code": Field(("bytesn", 4), "idict"),
        "vendor_id": Field(("opt", Field(("bytesn", 4))), "idict")}),
], valid=avp_elem_valid)

plen_of = lambda a: avp_plen(view_vendor(a), data_of(a))      # noqa: E731


def _plen_of(a):
    return avp_plen(view_vendor(a), data_of(a))


cat = fold("cat", enc_of, "bytes")          # concatenated reference encodings of a list of AVPs
slen = fold("slen", _plen_of, "int")        # sum of their on-wire sizes (length + padding)


@lemma("cat_len", prop="C01", over=AVP_ELEM)
def cat_len(s):
    """|cat(s)| == slen(s), a non-negative multiple of 4"""
    return len(cat(s)) == slen(s) and slen(s) % 4 == 0 and slen(s) >= 0


def msg_shape(cls=None, loaded=None, header=None):
    """a DiameterMessage with any header, any list of valid AVPs and any further named entries"""
    return T.Obj(cls or B.DiameterMessage,
                 idict={"_header": header or header_shape(), "_avps": T.Seq(AVP_ELEM),
                        "_loaded": loaded if loaded is not None else T.Bool()},
                 open_dict=True, excluded=("_header", "_avps", "_loaded"))
