"""pyvc.engine -- path-splitting symbolic interpreter over the real ASTs of /repo.

Execution model: a *path* is one run of a Python thunk (normally: build symbolic inputs,
call the function under contract, evaluate the postcondition).  Every branch on a
symbolic condition goes through Ctx.branch(); the explorer re-runs the thunk with a
recorded decision script until every feasible decision sequence has been taken (DFS by
re-execution; no state copying, no path merging).

Verdicts are never derived from interpreter failures: anything outside the modelled subset
raises Unsupported and the obligation is *undecided*.
"""
import ast
import builtins
import sys
import time
import types

import z3

# the legacy simplex arithmetic core decides the div/mod-heavy VCs generated here 10-50x faster
# than the default (measured on the AVP padding obligations: 0.14 s vs 6.7 s)
z3.set_param("smt.arith.solver", int(__import__("os").environ.get("PYVC_ARITH_SOLVER", "2")))

from .values import (SInt, SBool, SBytes, SStr, SSeq, SObj, SExc, SMethod, SClosure, Sym,
                     Opaque, BV8, BSEQ, STR, REF, RSEQ, bytes_term, bytes_elems, str_term,
                     int_term, bool_term, is_sym, is_intlike, is_byteslike, is_strlike,
                     seq_of_elems)
from .source import SourceIndex, assigned_names


import os as _os
_SPEC_FILE = _os.path.join(_os.path.dirname(_os.path.abspath(__file__)), "spec.py")


class Unsupported(Exception):
    """construct outside the modelled subset -> obligation undecided"""


class PyRaise(Exception):
    """a Python-level exception propagating through interpreted code"""

    def __init__(self, exc):
        Exception.__init__(self, repr(exc))
        self.exc = exc


class PathEnd(Exception):
    """the current path ends here (infeasible assumption, or end of an inductive step)"""


_PROFILE = bool(_os.environ.get("PYVC_PROFILE"))


class Blocked(Exception):
    """the path reached a call that blocks forever (modelled external)"""

    def __init__(self, what):
        Exception.__init__(self, what)
        self.what = what


class _Return(Exception):
    def __init__(self, value):
        self.value = value


class _Break(Exception):
    pass


class _Continue(Exception):
    pass


class Frame(object):
    def __init__(self, name, globs, locs, clsname=None, spec=False, fn=None):
        self.name = name
        self.globals = globs
        self.locals = locs
        self.clsname = clsname
        self.spec = spec
        self.fn = fn
        self.loop_ordinal = 0
        self.cur_exc = None


class Oblig(object):
    __slots__ = ("name", "status", "model", "time", "backend", "info", "smt_size", "witness")

    def __init__(self, name, status, model=None, t=0.0, backend="z3", info=None, smt_size=0):
        self.name = name
        self.status = status      # 'valid' | 'refuted' | 'unknown'
        self.model = model
        self.time = t
        self.backend = backend
        self.info = info or {}
        self.smt_size = smt_size
        self.witness = None


class Engine(object):
    """Shared, path-independent state: source index, contracts, options."""

    def __init__(self, repo_root, contracts_dir=None):
        self.repo_root = repo_root.rstrip("/")
        self.contracts_dir = contracts_dir
        self.src = SourceIndex()
        self.contracts = {}       # function object -> Contract (used at call sites)
        self.loopspecs = {}       # (qualname, ordinal) -> LoopSpec
        self.controls_refuted = set()   # (task label, control name) already refuted on an earlier path
        self.transparent_natives = set()
        self.max_paths = 4000
        self.branch_timeout_ms = 3000
        self.vc_timeout_ms = 20000
        self.cvc5_timeout_s = 20
        self.max_unroll = 70
        self.default_elem = None   # element kind used when a concrete list meets a symbolic sequence
        self.branch_full_timeout_ms = 400
        self.cvc5_for_branches = True
        self.cvc5_branch_timeout_s = 10
        self.time_scale = 1.0      # see scale_timeouts(): wall-clock budgets follow the measured machine speed
        self.stats = {"paths": 0, "branch_checks": 0, "solver_time": 0.0}
        self.dropped = []
        self.externals_used = set()

    def is_repo_function(self, fn):
        code = getattr(fn, "__code__", None)
        if code is None:
            return False
        f = code.co_filename
        return f.startswith(self.repo_root + "/") or f == _SPEC_FILE or (
            self.contracts_dir is not None and f.startswith(self.contracts_dir))

    def is_spec_function(self, fn):
        code = getattr(fn, "__code__", None)
        return (code is not None and (code.co_filename == _SPEC_FILE or (
            self.contracts_dir is not None and code.co_filename.startswith(self.contracts_dir))))

    def scale_timeouts(self, k):
        """all solver budgets are wall-clock; k = how much slower than the reference machine this run is
        (measured once per run by the driver), so that verdicts do not flip on a loaded or slower host"""
        k = max(1.0, min(8.0, float(k)))
        self.time_scale = k
        self.branch_timeout_ms = int(self.branch_timeout_ms * k)
        self.vc_timeout_ms = int(self.vc_timeout_ms * k)
        self.cvc5_timeout_s = int(self.cvc5_timeout_s * k + 0.5)
        self.branch_full_timeout_ms = int(self.branch_full_timeout_ms * k)
        self.cvc5_branch_timeout_s = int(self.cvc5_branch_timeout_s * k + 0.5)

    def is_repo_class(self, cls):
        mod = sys.modules.get(getattr(cls, "__module__", None))
        f = getattr(mod, "__file__", None) or ""
        return f.startswith(self.repo_root + "/") or (
            self.contracts_dir is not None and f.startswith(self.contracts_dir))


def _mentions_strings(extra, pc):
    """cvc5 is only worth its start-up cost for conditions over strings (z3's weak spot)"""
    try:
        return "String" in extra.sexpr() or "str." in extra.sexpr()
    except Exception:  # noqa
        return False


def explore(engine, thunk, max_paths=None):
    """Run thunk(ctx) over every feasible decision sequence.  Returns list of Ctx."""
    work = [[]]
    done = []
    limit = max_paths or engine.max_paths
    while work:
        script = work.pop()
        ctx = Ctx(engine, script)
        try:
            thunk(ctx)
            ctx.status = "done"
        except PathEnd:
            ctx.status = "end"
        except Blocked as b:
            ctx.status = "blocked"
            ctx.note = b.what
        except Unsupported as u:
            ctx.status = "unsupported"
            ctx.note = str(u)
        except PyRaise as r:
            ctx.status = "escaped"
            ctx.note = repr(r.exc)
        except RecursionError:
            ctx.status = "unsupported"
            ctx.note = "interpreter recursion limit"
        done.append(ctx)
        engine.stats["paths"] += 1
        work.extend(ctx.forks)
        if len(done) > limit:
            c = Ctx(engine, [])
            c.status = "unsupported"
            c.note = "path limit %d exceeded" % limit
            done.append(c)
            break
    return done


from .interp import InterpMixin      # noqa: E402
from .models import ModelsMixin      # noqa: E402


_ARITH_KINDS = None


def _arith_kinds():
    global _ARITH_KINDS
    if _ARITH_KINDS is None:
        _ARITH_KINDS = {z3.Z3_OP_ADD, z3.Z3_OP_SUB, z3.Z3_OP_MUL, z3.Z3_OP_UMINUS, z3.Z3_OP_IDIV, z3.Z3_OP_MOD,
                        z3.Z3_OP_REM, z3.Z3_OP_LE, z3.Z3_OP_LT, z3.Z3_OP_GE, z3.Z3_OP_GT, z3.Z3_OP_ANUM,
                        z3.Z3_OP_AND, z3.Z3_OP_OR, z3.Z3_OP_NOT, z3.Z3_OP_IMPLIES, z3.Z3_OP_TRUE, z3.Z3_OP_FALSE,
                        z3.Z3_OP_ITE, z3.Z3_OP_XOR, z3.Z3_OP_IFF if hasattr(z3, "Z3_OP_IFF") else z3.Z3_OP_EQ}
    return _ARITH_KINDS


class ArithAbstraction(object):
    """Boolean + linear-integer abstraction of the path condition: every maximal sub-term that is not
    Boolean/integer arithmetic (sequence lengths, string predicates, uninterpreted applications ...)
    becomes a fresh constant (one per distinct term).  The abstraction is WEAKER than the pc, so
    'unsat' here is a sound infeasibility verdict and it is decided in milliseconds."""

    def __init__(self, timeout_ms):
        self.solver = z3.Solver()
        self.solver.set("timeout", timeout_ms)
        self.cache = {}
        self.keep = []

    def abs(self, t):
        k = t.get_id()
        if k in self.cache:
            return self.cache[k]
        r = self._abs(t)
        self.cache[k] = r
        self.keep.append(t)
        return r

    def _abs(self, t):
        srt = t.sort()
        is_int = z3.is_int(t)
        is_bool = z3.is_bool(t)
        if not (is_int or is_bool):
            return None
        if z3.is_app(t):
            kind = t.decl().kind()
            kids = [t.arg(i) for i in range(t.num_args())]
            if kind in _arith_kinds() or (kind == z3.Z3_OP_EQ or kind == z3.Z3_OP_DISTINCT):
                if kind in (z3.Z3_OP_EQ, z3.Z3_OP_DISTINCT) and not all(z3.is_int(x) or z3.is_bool(x) for x in kids):
                    return z3.Bool("abs!b!%d" % t.get_id())
                if kind == z3.Z3_OP_ITE and not (z3.is_int(kids[1]) or z3.is_bool(kids[1])):
                    return (z3.Int if is_int else z3.Bool)("abs!%d" % t.get_id())
                sub = [self.abs(x) for x in kids]
                if any(x is None for x in sub):
                    return (z3.Int if is_int else z3.Bool)("abs!%d" % t.get_id())
                if kind == z3.Z3_OP_ANUM or not kids:
                    return t if (z3.is_int_value(t) or z3.is_true(t) or z3.is_false(t)) else \
                        (z3.Int if is_int else z3.Bool)("abs!%d" % t.get_id())
                try:
                    return t.decl()(*sub)
                except Exception:  # noqa
                    return (z3.Int if is_int else z3.Bool)("abs!%d" % t.get_id())
            if kind == z3.Z3_OP_UNINTERPRETED and t.num_args() == 0:
                return t
        return (z3.Int if is_int else z3.Bool)("abs!%d" % t.get_id())

    def add(self, cond):
        a = self.abs(cond)
        if a is not None:
            self.solver.add(a)

    def check(self, cond):
        a = self.abs(cond)
        if a is None:
            return z3.unknown
        return self.solver.check(a)


class Ctx(InterpMixin, ModelsMixin):
    def __init__(self, engine, script):
        self.eng = engine
        self.script = script
        from . import values as _values
        _values.CURRENT_CTX[0] = self
        self.taken = []
        self.forks = []
        self.solver = z3.Solver()
        self.solver.set("timeout", engine.branch_timeout_ms)
        self.arith = ArithAbstraction(1000)
        self.pc = []
        self.obligs = []
        self.status = None
        self.note = None
        self.counter = 0
        self.depth = 0
        self.held_locks = []
        self.trace = []
        self.inputs = {}          # name -> z3 const (for model extraction)
        self.ghost = {}
        self.summary_returns = []
        self.choice_names = []    # environment choices made through spec.any_bool / any_int, in call order
        self.event_log = []       # entries recorded by contracts with `log_entry` (see spec.event_log)
        self.outcome = None
        self.cur_fn = None
        self.assumed = []         # named assumptions applied on this path
        self.nsteps = 0
        self.class_overlay = {}   # (class, attr) -> value: class attributes written/seeded on this path
        self.module_overlay = {}  # (module, name) -> value
        self.havoc_notes = set()
        self.used_contracts = set()
        self.case_log = []
        self.shape_choice = {}
        self.proof_label = "?"
        self.cur_contract = None
        self.witness_ns = {}
        self.witness_state = {}
        self.entry_ns = {}
        self.elem_cache = {}      # element kind -> {ref id: (ref, materialised object)}
        self.fold_done = set()
        self.fold_keep = []
        self.default_elem = engine.default_elem
        self.be_cache = {}        # (Int term id, width) -> (term, byte terms): canonical big-endian bytes
        self.applied = {}         # callee function -> (contract, namespace) of its last application

    # ------------------------------------------------------------ fresh symbols
    def fresh_name(self, base):
        self.counter += 1
        return "%s!%d" % (base, self.counter)

    def fresh_int(self, base="i"):
        return SInt(z3.Int(self.fresh_name(base)))

    def fresh_bool(self, base="b"):
        return SBool(z3.Bool(self.fresh_name(base)))

    def fresh_bytes(self, base="by", n=None):
        if n is not None:
            nm = self.fresh_name(base)
            elems = [z3.Int("%s.%d" % (nm, i)) for i in range(n)]
            for e in elems:
                self.assume_raw(z3.And(e >= 0, e <= 255))
            return SBytes(elems=elems)
        return SBytes(term=z3.Const(self.fresh_name(base), BSEQ))

    def fresh_str(self, base="s"):
        return SStr(z3.Const(self.fresh_name(base), STR))

    def fresh_ref(self, base="r"):
        return z3.Const(self.fresh_name(base), REF)

    # ------------------------------------------------------------ path condition
    def _check(self, *extra):
        t = time.time()
        self.eng.stats["branch_checks"] += 1
        from .solve import guarded_check
        r = guarded_check(self.solver, getattr(self, "_cur_budget_ms", self.eng.branch_timeout_ms), *extra)
        dt = time.time() - t
        self.eng.stats["solver_time"] += dt
        if _PROFILE and dt > 0.2:
            sys.stderr.write("PROFILE check %.2fs budget %dms -> %s\n"
                             % (dt, getattr(self, "_cur_budget_ms", self.eng.branch_timeout_ms), r))
        return r

    def _check2(self, extra):
        """feasibility: (1) Boolean+LIA abstraction of the pc (sound for 'unsat', milliseconds);
        (2) the full z3 context under a short budget; (3) cvc5 as a second opinion on unknown"""
        t0 = time.time()
        ra = self.arith.check(extra)
        self.eng.stats["solver_time"] += time.time() - t0
        if ra == z3.unsat:
            return z3.unsat
        self.solver.set("timeout", self.eng.branch_full_timeout_ms)
        self._cur_budget_ms = self.eng.branch_full_timeout_ms
        try:
            r = self._check(extra)
        finally:
            self._cur_budget_ms = self.eng.branch_timeout_ms
            self.solver.set("timeout", self.eng.branch_timeout_ms)
        if r == z3.unknown and not _mentions_strings(extra, self.pc):
            return r
        if r == z3.unknown and self.eng.cvc5_for_branches:
            from .solve import run_cvc5, smt2_for
            res, _ = run_cvc5(smt2_for(self.pc, extra), self.eng.cvc5_branch_timeout_s)
            if res == "unsat":
                return z3.unsat
            if res == "sat":
                return z3.sat
        return r

    def assume_raw(self, cond):
        self.pc.append(cond)
        self.solver.add(cond)
        self.arith.add(cond)

    def assume(self, cond, check=True):
        """cond: z3 Bool / SBool / bool"""
        if isinstance(cond, SBool):
            cond = cond.term
        if cond is True:
            return
        if cond is False:
            raise PathEnd()
        cond = z3.simplify(cond)
        if z3.is_true(cond):
            return
        if z3.is_false(cond):
            raise PathEnd()
        self.assume_raw(cond)
        if check and self._check2(z3.BoolVal(True)) == z3.unsat:
            raise PathEnd()

    def branch(self, cond):
        """Decide a symbolic condition; forks the exploration when both sides are feasible."""
        if isinstance(cond, SBool):
            cond = cond.term
        if isinstance(cond, bool):
            return cond
        cond = z3.simplify(cond)
        if z3.is_true(cond):
            return True
        if z3.is_false(cond):
            return False
        i = len(self.taken)
        if i < len(self.script):
            choice = self.script[i]
        else:
            rt = self._check2(cond)
            if rt == z3.unsat:
                choice = False
            else:
                rf = self._check2(z3.Not(cond))
                if rf == z3.unsat:
                    choice = True
                else:
                    choice = True
                    self.forks.append(self.taken + [False])
        self.taken.append(choice)
        self.assume_raw(cond if choice else z3.Not(cond))
        return choice

    def choose(self, n, label=""):
        """n-way meta-level choice (typed cases, contract outcomes).  No feasibility check."""
        if n == 1:
            return 0
        i = len(self.taken)
        if i < len(self.script):
            choice = self.script[i]
        else:
            choice = 0
            for k in range(n - 1, 0, -1):
                self.forks.append(self.taken + [k])
        self.taken.append(choice)
        return choice

    def entails(self, cond):
        """True iff pc |= cond (solver says so); unknown -> False"""
        if isinstance(cond, SBool):
            cond = cond.term
        if isinstance(cond, bool):
            return cond
        cond = z3.simplify(cond)
        if z3.is_true(cond):
            return True
        if z3.is_false(cond):
            return False
        # the Boolean+LIA abstraction is weaker than the pc: unsat there is a sound 'entailed'
        if self.arith.check(z3.Not(cond)) == z3.unsat:
            return True
        self.solver.set("timeout", int(1000 * self.eng.time_scale))
        self._cur_budget_ms = int(1000 * self.eng.time_scale)
        try:
            r = self._check(z3.Not(cond))
        finally:
            self._cur_budget_ms = self.eng.branch_timeout_ms
            self.solver.set("timeout", self.eng.branch_timeout_ms)
        self.last_entails_unknown = False
        if r == z3.unknown and self.eng.cvc5_for_branches:
            from .solve import run_cvc5, smt2_for
            res, _ = run_cvc5(smt2_for(self.pc, z3.Not(cond)), self.eng.cvc5_branch_timeout_s)
            self.last_entails_unknown = res not in ("unsat", "sat")
            return res == "unsat"
        self.last_entails_unknown = r == z3.unknown
        return r == z3.unsat

    def entails_patiently(self, cond):
        """entails(), and when both solvers ran out of budget one more attempt with a fresh solver and a
        long budget: used where 'unknown' would otherwise push the path out of the supported subset"""
        if self.entails(cond):
            return True
        if not getattr(self, "last_entails_unknown", False):
            return False
        from .solve import guarded_check
        s1 = z3.Solver()
        budget = int(12000 * self.eng.time_scale)
        s1.set("timeout", budget)
        for c in self.pc:
            s1.add(c)
        s1.add(z3.Not(cond.term if isinstance(cond, SBool) else cond))
        return guarded_check(s1, budget) == z3.unsat

    def model_value(self, term):
        """A value of `term` in some model of the pc; None when the pc is unsatisfiable.  When the
        solver cannot decide (unknown) the path is NOT dropped: the caller gets Unsupported."""
        r = self._check()
        if r == z3.unsat:
            return None
        if r != z3.sat:
            ra = self.arith.solver.check()
            if ra == z3.sat:
                try:
                    v = self.arith.solver.model().eval(self.arith.abs(term), model_completion=True)
                    if z3.is_int_value(v):
                        return v            # a candidate only: callers confirm it with branch()
                except Exception:  # noqa
                    pass
            raise Unsupported("solver could not produce a model of the path condition (unknown)")
        m = self.solver.model()
        return m.eval(term, model_completion=True)

    def concretize_int(self, v, limit=70, what="value", domain=None):
        """Split a small-domain symbolic int by value: returns a concrete int on each path."""
        if domain is not None and not isinstance(v, (bool, int)):
            t = z3.simplify(v.term if not isinstance(v, SBool) else z3.If(v.term, 1, 0))
            if z3.is_int_value(t):
                return t.as_long()
            for c in domain:
                if self.branch(t == c):
                    return c
            raise PathEnd()
        if isinstance(v, bool):
            return int(v)
        if isinstance(v, int):
            return v
        if isinstance(v, SBool):
            return 1 if self.branch(v.term) else 0
        t = z3.simplify(v.term)
        if z3.is_int_value(t):
            return t.as_long()
        for _ in range(limit):
            mv = self.model_value(t)
            if mv is None:
                raise PathEnd()
            c = mv.as_long()
            if self.branch(t == c):
                return c
        raise Unsupported("domain of %s too large to split (%s)" % (what, t))

    def known_len(self, v):
        """concrete length of a bytes/str value if the pc pins it, else None"""
        if isinstance(v, (bytes, str, bytearray)):
            return len(v)
        if isinstance(v, SBytes) and v.elems is not None:
            return len(v.elems)
        ln = z3.simplify(z3.Length(v.term))
        if z3.is_int_value(ln):
            return ln.as_long()
        cands = []
        t = v.term
        if z3.is_app(t) and t.decl().kind() == z3.Z3_OP_SEQ_EXTRACT and z3.is_int_value(z3.simplify(t.arg(2))):
            cands.append(z3.simplify(t.arg(2)).as_long())       # s[a:a+n] most often has length n
        if not cands:
            try:
                mv = self.model_value(ln)
            except Unsupported:
                mv = False
            if mv is None:
                raise PathEnd()
            if mv is not False:
                cands.append(mv.as_long())
        for c in cands + [k for k in (0, 1, 2, 3, 4, 8, 12, 16, 20) if k not in cands]:
            if self.entails(ln == c):
                return c
        return None

    def fix_bytes(self, v):
        """Turn a bytes value whose length is pinned by the pc into element form."""
        if isinstance(v, (bytes, bytearray)):
            return SBytes(elems=[z3.IntVal(b) for b in v])
        if v.elems is not None:
            return v
        k = self.known_len(v)
        if k is None:
            return None
        if k > 64:
            return None
        elems = [z3.simplify(v.term[i]) for i in range(k)]
        for e in elems:
            if not z3.is_int_value(e):
                self.assume_raw(z3.And(e >= 0, e <= 255))
        return SBytes(term=v.term, elems=elems)

    # ------------------------------------------------------------ obligations
    def prove(self, name, goal, info=None, assume_after=True):
        """Record and discharge the VC  pc |= goal  under `name`."""
        if isinstance(goal, SBool):
            goal = goal.term
        if isinstance(goal, bool):
            goal = z3.BoolVal(goal)
        from .solve import discharge
        ob = discharge(self, name, goal, info)
        self.obligs.append(ob)
        if assume_after and ob.status == "valid":
            self.assume_raw(goal)
        elif assume_after:
            # continue under the claim so later obligations are judged on their own
            self.assume_raw(goal)
            if self._check() == z3.unsat:
                raise PathEnd()
        return ob

    def note_oblig(self, name, status, info=None, backend="eval"):
        ob = Oblig(name, status, None, 0.0, backend, info)
        self.obligs.append(ob)
        return ob
