"""pyvc.extmodels -- assumed contracts of external libraries used with symbolic data:
ipaddress, re (uninterpreted match predicates), datetime arithmetic.  Every function here is an
ASSUMPTION about a dependency (listed in the evidence trusted base when used); the conformance
suite differential-tests them against the real libraries on concrete values."""
import datetime as _dt
import hashlib
import ipaddress as _ip
import re as _re

import z3

from .values import (SInt, SBool, SBytes, SStr, SObj, SExc, Sym, Opaque, BSEQ, STR, bytes_term,
                     str_term, int_term, is_sym, is_byteslike, is_strlike, is_intlike)
from .models import ModelsMixin


class SExt(object):
    """a symbolic instance of an external (non-repo) class: class + modelled attributes"""

    def __init__(self, cls, attrs):
        self.cls = cls
        self.attrs = attrs

    def __repr__(self):
        return "<SExt %s>" % self.cls.__name__


IPV4_LIT = z3.Function("is_ipv4_literal", STR, z3.BoolSort())
IPV6_LIT = z3.Function("is_ipv6_literal", STR, z3.BoolSort())
IP_PACK = z3.Function("ip_packed_of_literal", STR, BSEQ)
IP_STR = z3.Function("ip_str_of_packed", BSEQ, STR)


def _note(ctx, what):
    ctx.eng.externals_used.add(what)


def _mk_addr(ctx, version, packed):
    cls = _ip.IPv4Address if version == 4 else _ip.IPv6Address
    return SExt(cls, {"packed": packed, "version": version})


def _ip_from_str(ctx, s, want):
    """s: symbolic or concrete str.  want: 4, 6 or None (ip_address)."""
    if not is_sym(s):
        return None
    _note(ctx, "ipaddress: parsing of address literals (uninterpreted predicates is_ipv4_literal / "
               "is_ipv6_literal, disjoint; packed value has 4 / 16 bytes; str(parse(s)) round trip assumed)")
    t = str_term(s)
    ctx.assume_raw(z3.Not(z3.And(IPV4_LIT(t), IPV6_LIT(t))))
    if want in (4, None) and ctx.branch(IPV4_LIT(t)):
        p = IP_PACK(t)
        ctx.assume_raw(z3.Length(p) == 4)
        return _mk_addr(ctx, 4, SBytes(term=p))
    if want in (6, None) and ctx.branch(IPV6_LIT(t)):
        p = IP_PACK(t)
        ctx.assume_raw(z3.Length(p) == 16)
        return _mk_addr(ctx, 6, SBytes(term=p))
    if want is None:
        ctx.py_raise(ValueError, "does not appear to be an IPv4 or IPv6 address")
    ctx.py_raise(_ip.AddressValueError, "invalid address literal")


def _m_ipv4(ctx, args, kwargs):
    return _ip_ctor(ctx, args, 4)


def _m_ipv6(ctx, args, kwargs):
    return _ip_ctor(ctx, args, 6)


def _ip_ctor(ctx, args, version):
    x = args[0]
    width = 4 if version == 4 else 16
    if not is_sym(x) and not isinstance(x, (SObj, SExt, Opaque)):
        try:
            a = (_ip.IPv4Address if version == 4 else _ip.IPv6Address)(x)
            return a
        except Exception as e:  # noqa
            ctx.py_raise(type(e), *e.args)
    if isinstance(x, SBytes):
        _note(ctx, "ipaddress.IPv%dAddress(bytes): accepts exactly %d bytes, else AddressValueError" % (version, width))
        ln = ctx.length_of(x)
        if isinstance(ln, int):
            ok = ln == width
        else:
            ok = ctx.branch(ln.term == width)
        if not ok:
            ctx.py_raise(_ip.AddressValueError, "packed address has wrong length")
        return _mk_addr(ctx, version, x)
    if isinstance(x, SStr):
        return _ip_from_str(ctx, x, version)
    if isinstance(x, (SInt, SBool)):
        t = int_term(x)
        _note(ctx, "ipaddress.IPv%dAddress(int): accepts 0 <= n < 2**%d" % (version, 8 * width))
        if ctx.branch(z3.Or(t < 0, t >= (1 << (8 * width)))):
            ctx.py_raise(_ip.AddressValueError, "address out of range")
        return _mk_addr(ctx, version, ctx.be_bytes(t, width))
    ctx.py_raise(_ip.AddressValueError, "unsupported address type")


def _m_ip_address(ctx, args, kwargs):
    x = args[0]
    if not is_sym(x) and not isinstance(x, (SObj, SExt, Opaque)):
        try:
            return _ip.ip_address(x)
        except Exception as e:  # noqa
            ctx.py_raise(type(e), *e.args)
    if isinstance(x, SBytes):
        _note(ctx, "ipaddress.ip_address(bytes): 4 bytes -> IPv4, 16 bytes -> IPv6, else ValueError")
        ln = ctx.length_of(x)
        lt = z3.IntVal(ln) if isinstance(ln, int) else ln.term
        if ctx.branch(lt == 4):
            return _mk_addr(ctx, 4, x)
        if ctx.branch(lt == 16):
            return _mk_addr(ctx, 6, x)
        ctx.py_raise(ValueError, "does not appear to be an IPv4 or IPv6 address")
    if isinstance(x, SStr):
        return _ip_from_str(ctx, x, None)
    if isinstance(x, (SInt, SBool)):
        t = int_term(x)
        _note(ctx, "ipaddress.ip_address(int): n < 2**32 -> IPv4, n < 2**128 -> IPv6, else ValueError")
        if ctx.branch(z3.And(t >= 0, t < (1 << 32))):
            return _mk_addr(ctx, 4, ctx.be_bytes(t, 4))
        if ctx.branch(z3.And(t >= 0, t < (1 << 128))):
            return _mk_addr(ctx, 6, ctx.be_bytes(t, 16))
        ctx.py_raise(ValueError, "does not appear to be an IPv4 or IPv6 address")
    ctx.py_raise(ValueError, "does not appear to be an IPv4 or IPv6 address")


def ext_getattr(ctx, obj, name):
    if name in obj.attrs:
        return obj.attrs[name]
    if name == "__class__":
        return obj.cls
    ctx.unsupported("attribute %s of a modelled %s" % (name, obj.cls.__name__))


def ext_str(ctx, obj):
    if obj.cls in (_ip.IPv4Address, _ip.IPv6Address):
        p = obj.attrs["packed"]
        _note(ctx, "str(ipaddress object): uninterpreted function of the packed bytes, inverse of parsing")
        r = IP_STR(bytes_term(p))
        # round trip: parsing the rendering gives the same address of the same family
        if obj.attrs["version"] == 4:
            ctx.assume_raw(z3.And(IPV4_LIT(r), IP_PACK(r) == bytes_term(p)))
        else:
            ctx.assume_raw(z3.And(IPV6_LIT(r), IP_PACK(r) == bytes_term(p)))
        return SStr(r)
    ctx.unsupported("str() of a modelled %s" % obj.cls.__name__)


# ------------------------------------------------------------------------------ re
def _re_pred(pattern, kind):
    h = hashlib.sha256(pattern.encode()).hexdigest()[:12]
    return z3.Function("re_%s!%s" % (kind, h), STR, z3.BoolSort())


def _m_re_fullmatch(ctx, args, kwargs):
    pattern, s = args[0], args[1]
    if not is_sym(s) and not is_sym(pattern):
        try:
            return _re.fullmatch(pattern, s, *args[2:], **kwargs)
        except Exception as e:  # noqa
            ctx.py_raise(type(e), *e.args)
    if is_sym(pattern):
        ctx.unsupported("re.fullmatch with a symbolic pattern")
    if not isinstance(s, SStr):
        ctx.py_raise(TypeError, "expected string or bytes-like object")
    _note(ctx, "re.fullmatch(%r..., symbolic text): uninterpreted predicate of the text (the pattern's "
               "language is the library's; its literal prefix is checked by a shape obligation)" % pattern[:24])
    return SBool(_re_pred(pattern, "fullmatch")(s.term))


def _m_re_findall(ctx, args, kwargs):
    pattern, s = args[0], args[1]
    if not is_sym(s) and not is_sym(pattern):
        return _re.findall(pattern, s, *args[2:], **kwargs)
    ctx.unsupported("re.findall on symbolic text")


# ------------------------------------------------------------------------------ datetime
US_PER_DAY = 86400 * 1000000


def dt_to_us(d):
    """microseconds since 0001-01-01 of a naive datetime"""
    delta = d - _dt.datetime(1, 1, 1)
    return (delta.days * 86400 + delta.seconds) * 1000000 + delta.microseconds


MAX_US = dt_to_us(_dt.datetime.max)


def make_datetime(ctx, name):
    t = z3.Int(name)
    ctx.inputs[name] = t
    ctx.assume_raw(z3.And(t >= 0, t <= MAX_US))
    return SExt(_dt.datetime, {"us": t})


def ext_binop(ctx, op, a, b):
    import ast
    if isinstance(a, SExt) and a.cls is _dt.datetime and op is ast.Sub:
        if isinstance(b, _dt.datetime):
            if b.tzinfo is not None:
                ctx.py_raise(TypeError, "can't subtract offset-naive and offset-aware datetimes")
            bus = z3.IntVal(dt_to_us(b))
        elif isinstance(b, SExt) and b.cls is _dt.datetime:
            bus = b.attrs["us"]
        else:
            ctx.unsupported("datetime - %r" % type(b))
        ctx.eng.externals_used.add("datetime arithmetic: naive datetimes as microseconds since 0001-01-01; "
                                   "timedelta normalised to days / seconds in [0, 86400) / microseconds")
        diff = a.attrs["us"] - bus
        days = diff / US_PER_DAY
        rem = diff % US_PER_DAY
        return SExt(_dt.timedelta, {"days": SInt(days), "seconds": SInt(rem / 1000000),
                                    "microseconds": SInt(rem % 1000000)})
    ctx.unsupported("operator on modelled external objects")


ModelsMixin.EXT_NATIVE = {
    "ipaddress.IPv4Address": _m_ipv4,
    "ipaddress.IPv6Address": _m_ipv6,
}
ModelsMixin.CLASS_MODELS[_ip.IPv4Address] = _m_ipv4
ModelsMixin.CLASS_MODELS[_ip.IPv6Address] = _m_ipv6
ModelsMixin.FUNCTION_MODELS["ipaddress.ip_address"] = _m_ip_address
ModelsMixin.FUNCTION_MODELS["re.fullmatch"] = _m_re_fullmatch
ModelsMixin.FUNCTION_MODELS["re.findall"] = _m_re_findall


EPOCH_1900_US = dt_to_us(_dt.datetime(1900, 1, 1))


def _m_utcnow(ctx, args, kwargs):
    """datetime.utcnow()/now(): ANY instant (havoc'd per call); when the proof names a clock floor
    (ghost 'clock_floor_s1900': seconds since 1900 the clock has already shown) the named assumption
    A-CLOCK-MONO 'the wall clock does not run backwards' is applied."""
    ctx.clock_reads = getattr(ctx, "clock_reads", 0) + 1
    d = make_datetime(ctx, ctx.fresh_name("clock"))
    ctx.eng.externals_used.add("datetime.utcnow()/now(): any instant on every call (wall clock not modelled)")
    floor = ctx.ghost.get("clock_floor_s1900")
    if floor is not None:
        ctx.eng.externals_used.add("A-CLOCK-MONO: the wall clock never shows a second earlier than one it showed before")
        ctx.assume_raw(d.attrs["us"] >= int_term(floor) * 1000000 + EPOCH_1900_US)
    return d


ModelsMixin.NATIVE_MODEL_TABLE["datetime.utcnow"] = _m_utcnow
ModelsMixin.NATIVE_MODEL_TABLE["datetime.now"] = _m_utcnow


class SSplit(object):
    """result of str.split(sep) on symbolic text: only [0] and truthiness are modelled"""

    def __init__(self, s, sep):
        self.s, self.sep = s, sep


# ------------------------------------------------------------------------------ files / yaml
def _m_open(ctx, args, kwargs):
    import io
    ctx.eng.externals_used.add("open(): the file system is not modelled; the content is whatever yaml.load returns")
    return SExt(io.TextIOWrapper, {"cm": "noop"})


def _m_exists(ctx, args, kwargs):
    return True


def _m_yaml_load(ctx, args, kwargs):
    doc = ctx.ghost.get("yaml_doc")
    if doc is None:
        ctx.unsupported("yaml.load without a ghost document")
    ctx.eng.externals_used.add("yaml.load: returns ANY document of the shape the contract's precondition describes")
    return doc


ModelsMixin.NATIVE_MODEL_TABLE["io.open"] = _m_open
ModelsMixin.NATIVE_MODEL_TABLE["_io.open"] = _m_open
ModelsMixin.FUNCTION_MODELS["genericpath.exists"] = _m_exists
ModelsMixin.FUNCTION_MODELS["yaml.load"] = _m_yaml_load


# ------------------------------------------------------------------------------ synchronisation objects
class SSync(object):
    """model of queue.Queue / threading.Lock / Event / Barrier seen by ONE thread of control.
    A call that would wait forever in this single-threaded view raises Blocked (a first-class
    outcome: contracts may state never_blocks)."""

    def __init__(self, kind, **st):
        self.kind = kind
        self.st = st

    def __repr__(self):
        return "<SSync %s %r>" % (self.kind, self.st)


def _extra_pos(st):
    from .values import int_term
    return int_term(st["extra"]) > 0


def sync_method(ctx, obj, name, args, kwargs):
    from .engine import Blocked
    k, st = obj.kind, obj.st
    for fld in ("flag", "held"):
        if fld in st and not isinstance(st[fld], bool):
            st[fld] = bool(ctx.truth(st[fld]))      # a symbolic initial state is decided here (case split)
    if k == "queue":
        if name in ("put", "put_nowait"):
            if st.get("tail") is not None:
                st.setdefault("after", []).append(args[0])      # behind the symbolic tail
            else:
                st["items"].append(args[0])
            return None
        if name in ("get", "get_nowait"):
            if st["items"]:
                return st["items"].pop(0)
            if st.get("tail") is not None and ctx.branch(z3.Length(st["tail"].term) > 0):
                # the queue continues with a MODELLED symbolic sequence of items: take its head
                from .specmodels import _seq_uncons
                ctx._uncons_quiet = True
                try:
                    xo, rest = _seq_uncons(ctx, [st["tail"]], {})
                finally:
                    ctx._uncons_quiet = False
                st["tail"] = rest
                return xo
            if st.get("after"):
                return st["after"].pop(0)
            if st.get("extra") is not None:
                # further, unknown items behind the known head of the queue: their contents are not
                # modelled, so a path that consumes one is outside this contract's shape
                if ctx.branch(_extra_pos(st)):
                    from .engine import Unsupported
                    raise Unsupported("Queue.get() reaches the unmodelled tail of the queue")
            if name == "get_nowait" or (args and args[0] is False) or kwargs.get("block") is False \
                    or kwargs.get("timeout") is not None or len(args) > 1:
                import queue
                ctx.py_raise(queue.Empty)
            raise Blocked("Queue.get() on an empty queue")
        if name == "empty":
            if st.get("tail") is not None:
                if st["items"] or st.get("after"):
                    return False
                from .values import SBool
                return SBool(z3.Length(st["tail"].term) == 0)
            if st["items"] or st.get("extra") is None:
                return len(st["items"]) == 0
            from .values import SBool
            return SBool(z3.Not(_extra_pos(st)))
        if name == "qsize":
            if st.get("tail") is not None:
                from .values import SInt
                return SInt(len(st["items"]) + z3.Length(st["tail"].term) + len(st.get("after") or []))
            if st.get("extra") is None:
                return len(st["items"])
            from .values import SInt, int_term
            return SInt(len(st["items"]) + int_term(st["extra"]))
        if name == "task_done":
            return None
    if k == "deque":
        if name == "appendleft":
            st["items"].insert(0, args[0])
            return None
        if name == "append":
            st["items"].append(args[0])
            return None
        if name == "popleft":
            if st["items"]:
                return st["items"].pop(0)
            if st.get("extra") is not None and ctx.branch(_extra_pos(st)):
                from .engine import Unsupported
                raise Unsupported("deque.popleft() reaches the unmodelled tail of the queue")
            ctx.py_raise(IndexError, "pop from an empty deque")
    if k == "lock":
        if name in ("acquire", "__enter__"):
            if st["held"]:
                if (args and args[0] is False) or kwargs.get("blocking") is False or kwargs.get("timeout") is not None:
                    return False
                raise Blocked("Lock.acquire() on a lock already held (never released on this path)")
            st["held"] = True
            ctx.held_locks.append(obj)
            return True
        if name in ("release", "__exit__"):
            if not st["held"]:
                ctx.py_raise(RuntimeError, "release unlocked lock")
            st["held"] = False
            if obj in ctx.held_locks:
                ctx.held_locks.remove(obj)
            return None
        if name == "locked":
            return st["held"]
    if k == "event":
        if name == "set":
            st["flag"] = True
            return None
        if name == "clear":
            st["flag"] = False
            return None
        if name == "is_set":
            return st["flag"]
        if name == "wait":
            if st["flag"]:
                return True
            if args or kwargs.get("timeout") is not None:
                return False
            raise Blocked("Event.wait() without timeout on an event nobody sets on this path")
    if k == "barrier":
        if name == "wait":
            import threading
            if ctx.choose(2, "barrier") == 1:
                ctx.py_raise(threading.BrokenBarrierError)
            return 0
        if name in ("reset", "abort"):
            return None
    ctx.unsupported("%s.%s on a modelled synchronisation object" % (k, name))


class SCallable(object):
    """an unknown callable with declared outcomes; every call is logged in ctx.ghost['calls']"""

    def __init__(self, tag, outcomes, attrs=None):
        self.tag = tag
        self.outcomes = outcomes      # list of ('return', make_fn) | ('raise', cls, args)
        self.attrs = attrs or {}


def call_scallable(ctx, f, args, kwargs):
    from .engine import PyRaise
    ctx.ghost.setdefault("calls", []).append((f.tag, list(args)))
    k = ctx.choose(len(f.outcomes), "outcome of %s" % f.tag)
    ctx.ghost.setdefault("outcomes", []).append((f.tag, k))
    o = f.outcomes[k]
    if o[0] == "raise":
        raise PyRaise(SExc(o[1], o[2]))
    return o[1](ctx, args)


# ------------------------------------------------------------------ constructors of synchronisation objects
import threading as _th      # noqa: E402
import queue as _qu          # noqa: E402


def _mk_sync(kind, **st):
    def make(ctx, args, kwargs):
        d = dict(st)
        if kind == "queue":
            d["items"] = []
        return SSync(kind, **d)
    return make


ModelsMixin.CLASS_MODELS[_th.Event] = _mk_sync("event", flag=False)
ModelsMixin.CLASS_MODELS[_qu.Queue] = _mk_sync("queue")
ModelsMixin.CLASS_MODELS[_th.Barrier] = _mk_sync("barrier")
ModelsMixin.FUNCTION_MODELS["_thread.allocate_lock"] = _mk_sync("lock", held=False)
