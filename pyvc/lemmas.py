"""pyvc.lemmas -- named lemmas proved by their own obligations (sequence induction)."""
import time
import types

import z3

from .engine import explore, PathEnd, PyRaise
from .values import SSeq, RSEQ
from .verify import TaskResult


def run_lemma(eng, lem):
    label = "%s/lemma:%s" % (lem.prop, lem.name)
    res = TaskResult(label)
    t0 = time.time()
    elem = lem.args["over"]

    def thunk(ctx):
        ctx.proof_label = label
        ctx.cur_fn = None
        k = ctx.choose(2, "case")
        if k == 0:
            s = SSeq(z3.Empty(RSEQ), elem, ("empty",))
            ctx.prove(label + "/base", ctx.as_goal(ctx.call_spec(lem.fn, {"s": s})), assume_after=False)
        else:
            d = SSeq(z3.Const("lemma.d", RSEQ), elem, ("var",))
            x = ctx.fresh_ref("lemma.x")
            ctx.assume(ctx.as_goal(ctx.call_spec(lem.fn, {"s": d})))
            xo = elem.materialize(ctx, x)
            s2 = SSeq(z3.Concat(d.term, z3.Unit(x)), elem, ("snoc", d, xo))
            ctx.prove(label + "/step", ctx.as_goal(ctx.call_spec(lem.fn, {"s": s2})), assume_after=False)

    for ctx in explore(eng, thunk):
        res.paths += 1
        if ctx.status == "unsupported":
            res.add(label + "/exec", "unknown", note="out of subset: %s" % ctx.note)
        if ctx.status == "escaped":
            res.add(label + "/exec", "unknown", note="spec raised: %s" % ctx.note)
        for ob in ctx.obligs:
            res.add(ob.name, ob.status, ob.time, ob.backend, ob.model, None,
                    note=(ob.info or {}).get("unknown_reason"))
    res.time = time.time() - t0
    res.sources = dict(eng.src.used)
    res.externals = set(eng.externals_used)
    return res
