"""pyvc.api -- what sidecar contract files import.

    from pyvc.api import contract, T, Loop, spec

A contract is a class decorated with @contract(target, prop=...).  Its body holds
  args       = {param: Shape}            symbolic inputs for the proof (typed cases via T.OneOf)
  state      = {(cls_or_module, attr): Shape}   class/module attributes the function reads or writes
  requires   = def(...)                  precondition (spec function; parameters picked by name)
  ensures_*  = def(..., result, old)     postcondition clauses, one obligation each
  exceptional= def(..., exc, old)        which exceptions may escape and when (default: none)
  control_*  = def(..., result, old)     NEGATIVE CONTROLS: deliberately wrong clauses that must be refuted
  loops      = {ordinal: Loop(...)}      invariants / variants of the loops of the target
  returns / modifies                     result shape and frame, used when callers apply the contract
  at_calls   = True|False                callers are checked against this contract (never its body)
Spec functions are ordinary restricted Python: pyvc interprets their AST symbolically and the
replay harness runs them natively, so the SMT meaning and the run-time oracle cannot diverge.
"""
import types

from . import shapes as T   # noqa: F401

REGISTRY = []


class Loop(object):
    def __init__(self, vars=None, inv=None, variant=None, heap=None, ghost=None, elem=None,
                 done_name="done", note=None, hint=None, tail=None, min_decrease=1, open_dicts=(),
                 any_order=False, writes=None, temps=(), entry=None, state=None):
        self.state = state or {}        # {(class or module, attr): Shape}: class / module state the loop modifies
        self.entry = entry              # spec function run when the loop is reached (ghost snapshots)
        self.any_order = any_order      # for over a concrete dict: each key once, in an arbitrary order
        self.writes = writes            # {key: [locals that iteration may bind]} (pairwise disjoint)
        self.temps = tuple(temps)
        self.open_dicts = tuple(open_dicts)
        self.hint = hint
        self.tail = tail
        self.min_decrease = min_decrease
        self.vars = vars or {}
        self.inv = inv
        self.variant = variant
        self.heap = heap or {}
        self.ghost = ghost or {}
        self.elem = elem
        self.done_name = done_name
        self.note = note


class Contract(object):
    def __init__(self, target, prop, body, name=None, also=()):
        self.target = target
        self.prop = prop
        self.also = tuple(also)
        self.name = name or body.__name__
        d = dict(body.__dict__)
        self.args = d.get("args", {})
        self.state = d.get("state", {})
        self.requires = d.get("requires")
        self.ensures = {k[len("ensures"):].lstrip("_") or "post": v for k, v in d.items()
                        if k.startswith("ensures") and isinstance(v, types.FunctionType)}
        self.controls = {k[len("control_"):]: v for k, v in d.items()
                         if k.startswith("control_") and isinstance(v, types.FunctionType)}
        self.exceptional = d.get("exceptional")
        self.loops = d.get("loops", {})
        self.returns = d.get("returns")
        self.modifies = d.get("modifies", {})
        self.at_calls = d.get("at_calls", False)
        self.raises = d.get("raises", ())
        self.regions = d.get("regions", {})       # finding id -> spec function (masked region)
        self.snapshot_spec = d.get("snapshot_spec")   # like setup_spec, but run AFTER requires is assumed
        self.setup_spec = d.get("setup_spec")     # spec function run after inputs are built (ghost snapshots)
        self.setup = d.get("setup")               # python-level hook(ctx, ns) run before the call
        self.receiver = d.get("receiver")
        self.kwargs_call = d.get("kwargs_call", False)
        self.max_paths = d.get("max_paths")
        self.doc = (body.__doc__ or "").strip()
        self.lemmas = d.get("lemmas", ())
        self.call = d.get("call")                 # optional spec-level driver instead of target(*args)
        self.assumes = d.get("assumes", ())       # named assumptions (strings) this contract relies on
        self.bounded = d.get("bounded")           # text if this is a bounded stand-in, else None
        self.accepts = d.get("accepts")           # python-level predicate(ctx, ns): typed case selector at call sites
        self.pre_hints = d.get("pre_hints")       # {callee name: spec fn} proof hints run before proving pre@callee
        self.defines = d.get("defines", {})        # path -> spec fn(args..., old): the new value of that location
        #                                            (used INSTEAD of havoc+assume; the matching ensures clause
        #                                            `location == fn(...)` is what the callee's own proof shows)
        self.open_dicts = d.get("open_dicts", ())  # objects whose named (non-field) dict entries are havoc'd at calls
        self.force_contracts = tuple(d.get("force_contracts", ()))  # callee targets whose summary is used even
        #                                                               when its own `accepts` would decline
        self.check_effect = d.get("check_effect", False)  # prove (not assume) ensures about the effect hook
        self.effect = d.get("effect")             # python-level hook(ctx, ns) -> result, replaces `returns`
        self.proof = d.get("proof", "symbolic")   # 'symbolic' | 'table' (discharged by a @table obligation)
        self.native_accepts = d.get("native_accepts")   # spec fn(args...) -> bool: run-time twin of `accepts`
        self.when_blocked = d.get("when_blocked")       # spec fn(args..., old): what must hold when the call waits for
        #                                                 another thread (Blocked outcome of the one-thread models)
        self.native_real = d.get("native_real", False)   # an assumed summary whose REAL callee may run in sampled replays
        self.sample_budget = d.get("samples")     # typed cases sampled for the bounded companion (None = default, 0 = none)
        self.native_effect = d.get("native_effect")     # spec fn(args...) run by the native stub of an assumed summary
        self.log_entry = d.get("log_entry")       # spec fn(args...) -> tuple: appended to the ghost event log at
        #                                            every call of the target (pre-state), see spec.event_log()
        self.interference = d.get("interference")   # spec fn(args...): what OTHER threads may do to the shared state
        #                                              while this (long-running) callee executes; run at every
        #                                              application of the summary, symbolically and in native stubs
        self.externals_interference = d.get("externals_interference")   # {"os.urandom": spec fn}: see `interference`,
        #                                                                    for modelled EXTERNAL functions
        self.call_ghosts = d.get("call_ghosts")   # {callee qualname: (contract name, spec fn -> {ghost param: value})}:
        #                                            ghost witnesses this proof supplies when it applies that contract
        self.log_result = d.get("log_result")     # spec fn(args..., result) -> tuple: appended to the event log when
        #                                            the call RETURNS (what a summary handed back, in call order)
        self.pure = d.get("pure")                 # 'str'|'bytes'|'int': result is a function of the arguments


def contract(target, prop, name=None, also=()):
    def deco(body):
        c = Contract(target, prop, body, name=name, also=also)
        REGISTRY.append(c)
        return c
    return deco


class Lemma(object):
    def __init__(self, name, prop, fn, args):
        self.name, self.prop, self.fn, self.args = name, prop, fn, args


LEMMAS = []


def lemma(name, prop, over):
    """sequence-induction lemma: fn(s) for every sequence s of element kind `over`"""
    def deco(fn):
        LEMMAS.append(Lemma(name, prop, fn, {"over": over}))
        return fn
    return deco


TABLES = []


def table(name, prop, also=()):
    """an obligation over finite concrete data, discharged by evaluation (back end `eval`)"""
    def deco(fn):
        TABLES.append((name, prop, fn))
        for p in also:
            TABLES.append((name, p, fn))
        return fn
    return deco
