"""pyvc.source -- locate the AST of real functions in the tree under check.

The verified text is the code that runs: every function the interpreter executes is
re-parsed from the file the imported function object came from (co_filename /
co_firstlineno), on every run.  What extraction drops is listed in DROPPED below and
implemented in engine.Ctx.exec_stmt (logging calls, print, time.sleep) and here
(docstrings, annotations are simply never evaluated).
"""
import ast
import hashlib
import inspect
import os
import types

DROPPED = [
    "docstrings and type annotations (never evaluated)",
    "expression statements calling logging.Logger methods / logging.* / print: the call is dropped, its "
    "argument expressions ARE evaluated (an exception while formatting a log line is behaviour); only "
    "argument expressions outside the modelled subset are skipped (A-LOG, listed per run)",
    "time.sleep(...) (timing is not modelled)",
    "@abc.abstractmethod (no effect on concrete subclasses)",
]


class SourceIndex(object):
    def __init__(self):
        self.files = {}      # filename -> (tree, {lineno: FunctionDef}, sha256)
        self.used = {}       # qualname -> (filename, lineno, sha of segment)
        self._cache = {}     # code object -> (node, filename)

    def _load(self, filename):
        if filename not in self.files:
            with open(filename, "rb") as f:
                raw = f.read()
            tree = ast.parse(raw.decode("utf-8"), filename=filename)
            idx = {}
            for node in ast.walk(tree):
                if isinstance(node, (ast.FunctionDef, ast.AsyncFunctionDef, ast.Lambda)):
                    idx.setdefault(node.lineno, node)
                    for d in getattr(node, "decorator_list", []):
                        idx.setdefault(d.lineno, node)
            # parent class names for name mangling
            for node in ast.walk(tree):
                if isinstance(node, ast.ClassDef):
                    for ch in node.body:
                        if isinstance(ch, ast.FunctionDef):
                            ch._pyvc_class = node.name
            self.files[filename] = (tree, idx, hashlib.sha256(raw).hexdigest(), raw.decode("utf-8"))
        return self.files[filename]

    def node_for(self, fn):
        """fn: a Python function object.  Returns (FunctionDef node, filename) or None."""
        code = getattr(fn, "__code__", None)
        if code is None:
            return None
        hit = self._cache.get(code)
        if hit is not None:
            return hit
        filename = code.co_filename
        if not filename or not os.path.exists(filename):
            return None
        tree, idx, sha, text = self._load(filename)
        node = idx.get(code.co_firstlineno)
        if node is None or getattr(node, "name", "<lambda>") != fn.__name__:
            # search by name + nearest line
            cands = [n for n in ast.walk(tree)
                     if isinstance(n, ast.FunctionDef) and n.name == fn.__name__]
            if not cands:
                return None
            node = min(cands, key=lambda n: abs(n.lineno - code.co_firstlineno))
        seg = ast.get_source_segment(text, node) or ""
        self.used[fn.__module__ + "." + fn.__qualname__] = (
            filename, node.lineno, hashlib.sha256(seg.encode()).hexdigest()[:16])
        self._cache[code] = (node, filename)
        return node, filename

    def file_hashes(self):
        return {fn: v[2] for fn, v in self.files.items()}


def assigned_names(stmts):
    """Names (re)bound anywhere inside a list of statements (syntactic)."""
    out = set()

    class V(ast.NodeVisitor):
        def visit_Name(self, n):
            if isinstance(n.ctx, (ast.Store, ast.Del)):
                out.add(n.id)

        def visit_FunctionDef(self, n):
            out.add(n.name)

        def visit_Lambda(self, n):
            pass

        def visit_ListComp(self, n):
            # comprehension targets are local to the comprehension
            self.visit(n.elt)

        visit_SetComp = visit_GeneratorExp = visit_ListComp

        def visit_DictComp(self, n):
            pass

    for s in stmts:
        V().visit(s)
    return out
