"""pyvc.verify -- proof tasks: one per contract / lemma; modular reasoning at call sites and loops."""
import ast
import importlib
import inspect
import sys
import time
import types

import z3

from . import engine as E
from .engine import Engine, Ctx, explore, PyRaise, PathEnd, Unsupported, Blocked, Oblig
from .values import (SInt, SBool, SBytes, SStr, SSeq, SObj, SExc, SMethod, Sym, Opaque, BSEQ, RSEQ, REF,
                     bool_term, int_term, is_sym)
from . import spec as specmod
from .models import ModelsMixin, _MISSING
from .interp import InterpMixin


def resolve_target(path):
    """'pkg.mod.Class.attr.fget' -> python object (function / property accessor / class)"""
    parts = path.split(".")
    for i in range(len(parts), 0, -1):
        modname = ".".join(parts[:i])
        try:
            obj = importlib.import_module(modname)
        except ImportError:
            continue
        owner = None
        for p in parts[i:]:
            owner = obj
            if isinstance(obj, type):
                raw = None
                for c in obj.__mro__:
                    if p in c.__dict__:
                        raw = c.__dict__[p]
                        break
                if raw is None:
                    raise AttributeError(path)
                obj = raw
            else:
                obj = getattr(obj, p)
        if isinstance(obj, (staticmethod, classmethod)):
            obj = obj.__func__
        return obj
    raise ImportError(path)


# ------------------------------------------------------------------------------------------
#  spec evaluation helpers (added to Ctx)
# ------------------------------------------------------------------------------------------
def call_spec(ctx, fn, ns, strict=True):
    """Call a spec function picking its parameters by name from the namespace ns.  strict: an
    exception raised by the SPEC (hint, invariant, requires ...) is a defect of the sidecar, never a
    behaviour of the program under proof -> undecided, not a violation."""
    sig = inspect.signature(fn)
    args = []
    for p in sig.parameters.values():
        if p.name in ns:
            args.append(ns[p.name])
        elif p.default is not inspect._empty:
            args.append(p.default)
        else:
            raise KeyError("spec function %s wants unknown name %r" % (fn.__name__, p.name))
    if not strict:
        return ctx.invoke_repo_function(fn, args, {}, spec=True)
    try:
        return ctx.invoke_repo_function(fn, args, {}, spec=True)
    except PyRaise as r:
        if getattr(ctx, "_in_clause", 0):
            raise
        raise Unsupported("spec function %s raised %r" % (fn.__name__, r.exc))


def as_goal(ctx, v):
    """Turn the value of a spec clause into a z3 Bool (forks on non-boolean truthiness)."""
    if isinstance(v, SBool):
        return v.term
    if isinstance(v, bool):
        return z3.BoolVal(v)
    return z3.BoolVal(bool(ctx.truth(v)))


InterpMixin.call_spec = call_spec
InterpMixin.as_goal = as_goal


# ------------------------------------------------------------------------------------------
#  contracts applied at call sites
# ------------------------------------------------------------------------------------------
def apply_contract(ctx, cs, fn, args, kwargs):
    """Caller side: assert requires, havoc the frame, assume ensures (never the callee body)."""
    c = cs[0]
    target = c.target_obj
    if isinstance(target, type):
        init = ctx.class_lookup(target, "__init__")
        sigfn = init
        node = ctx.eng.src.node_for(init)[0]
        bound = ctx.bind_args(node.args, init, [None] + list(args), kwargs)
        bound.pop("self", None)
        bound.pop(list(inspect.signature(init).parameters)[0], None)
    else:
        node = ctx.eng.src.node_for(fn)[0]
        bound = ctx.bind_args(node.args, fn, args, kwargs)
    ns = dict(bound)
    if len(cs) > 1 or cs[0].accepts is not None:
        forced = ctx.cur_contract.force_contracts if ctx.cur_contract is not None else ()
        sel = [x for x in cs if x.accepts is None or x.accepts(ctx, ns) or x.target in forced]
        if not sel:
            # no summary fits this call: execute the real body instead (still sound, just not modular)
            if isinstance(target, type):
                return ctx.instantiate(target, args, kwargs)
            return ctx.invoke_repo_function(fn, args, kwargs)
        c = sel[0]
    # ghost WITNESSES named by the contract under proof (`call_ghosts = {callee qualname: (contract name,
    # spec fn -> {ghost: value})}`): the callee's contract is "for all ghosts: requires => ensures", so the
    # caller may pick the instance it needs -- requires is PROVED for it, ensures assumed for it
    witness = None
    cc = ctx.cur_contract
    if cc is not None and cc.call_ghosts and getattr(fn, "__qualname__", None) in cc.call_ghosts:
        cname, wfn = cc.call_ghosts[fn.__qualname__]
        named = [x for x in cs if x.name == cname]
        if named:
            c = named[0]
            witness = ctx.call_spec(wfn, dict(ctx.entry_ns, **ns))
    caller = ctx.proof_label
    ctx.used_contracts.add(c.label)
    ghosts = [p for p in c.args if p.startswith("_")]
    if witness is not None:
        for g in ghosts:
            ns[g] = witness[g]
        ghosts = []
    if c.requires is not None:
        nsr = dict(ns)
        for g in ghosts:      # universally quantified: the caller proves requires for a fresh value
            nsr[g] = c.args[g].make(ctx, ctx.fresh_name("forall" + g))
        h = (ctx.cur_contract.pre_hints or {}).get(fn.__name__) if ctx.cur_contract is not None else None
        if h is not None:
            nsh = dict(ctx.entry_ns)
            nsh.update(nsr)
            ctx.call_spec(h, nsh)
        v = ctx.call_spec(c.requires, nsr)
        ctx.prove("%s/pre@%s" % (caller, c.short), ctx.as_goal(v))
    outer_ghost = ctx.ghost
    ctx.ghost = dict(outer_ghost)
    try:
        return _apply_contract_tail(ctx, c, fn, target, ns, ghosts)
    finally:
        # the callee's ghost snapshots live in their own scope
        ctx.ghost = outer_ghost


def _apply_contract_tail(ctx, c, fn, target, ns, ghosts):
    if c.setup_spec is not None:
        ctx.call_spec(c.setup_spec, ns)
    if c.snapshot_spec is not None:
        ctx.call_spec(c.snapshot_spec, ns)
    if c.log_entry is not None:
        ctx.event_log.append(ctx.call_spec(c.log_entry, ns))
    old = types.SimpleNamespace(**{k: ctx.clone(v) for k, v in ns.items()})
    # exceptional outcomes (over-approximated: any declared exception may occur when allowed)
    ncases = 1 + len(c.raises)
    k = ctx.choose(ncases, "outcome@" + c.short) if ncases > 1 else 0
    if k > 0:
        exc_cls = c.raises[k - 1]
        if c.proof == "table":
            ctx.summary_returns.append((c.label, None, exc_cls))
        exc = SExc(exc_cls, (ctx.fresh_str("msg"),))
        exc.extra.setdefault("via", set()).add(getattr(fn, "__qualname__", c.short))
        if c.exceptional is not None:
            ns2 = dict(ns, exc=exc, old=old)
            ctx.assume(ctx.as_goal(ctx.call_spec(c.exceptional, ns2)))
        raise PyRaise(exc)
    # frame
    for path, shape in c.modifies.items():
        base, attr = path.rsplit(".", 1)
        obj = ns[base] if "." not in base else None
        if obj is None:
            cur = ns[base.split(".")[0]]
            for p in base.split(".")[1:]:
                cur = ctx.getattr_(cur, p)
            obj = cur
        val = shape.make(ctx, ctx.fresh_name("%s@%s" % (path, c.short)))
        set_field(ctx, obj, attr, val)
    for path, f in c.defines.items():
        base, attr = path.rsplit(".", 1)
        cur = ns[base.split(".")[0]]
        for p in base.split(".")[1:]:
            cur = ctx.getattr_(cur, p)
        set_field(ctx, cur, attr, ctx.call_spec(f, dict(ns, old=old)))
    for path in c.open_dicts:
        open_dict_of(ctx, ns, path)
    for key, shape in c.state.items():
        owner, attr = key
        val = shape.make(ctx, ctx.fresh_name("%s.%s@%s" % (getattr(owner, "__name__", "?"), attr, c.short)))
        if isinstance(owner, type):
            ctx.class_overlay[(owner, attr)] = val
        else:
            ctx.module_overlay[(owner, attr)] = val
    if c.interference is not None:
        ctx.call_spec(c.interference, ns)
    if isinstance(target, type) and c.returns is None and c.effect is None:
        raise Unsupported("constructor contract needs a returns shape")
    result = None
    if c.effect is not None:
        result = c.effect(ctx, ns)
    elif c.pure is not None:
        result = pure_result(ctx, c, ns)
    elif c.returns is not None:
        rname = ctx.fresh_name("ret@%s" % c.short)
        result = c.returns.make(ctx, rname)
        if c.proof == "table":
            ctx.summary_returns.append((c.label, rname, c.returns))
    ns3 = dict(ns, result=result, old=old)
    if c.log_result is not None:
        ctx.event_log.append(ctx.call_spec(c.log_result, ns3))
    ctx.applied[fn] = (c, ns3)
    for nm, f in c.ensures.items():
        params = inspect.signature(f).parameters
        if any(g in params for g in ghosts):
            continue          # ghost-quantified clause: available through instantiate_post(...)
        if c.check_effect:
            ctx.prove("%s/effect-consistent@%s#%s" % (ctx.proof_label, c.short, nm),
                      ctx.as_goal(ctx.call_spec(f, ns3)))
        else:
            val = ctx.call_spec(f, ns3)
            if val is False:
                raise PathEnd()       # typed-case analysis: this outcome cannot occur for these argument kinds
            try:
                ctx.assume(ctx.as_goal(val))
            except PathEnd:
                # vacuity guard: a callee postcondition that contradicts the caller's path means the
                # contract (frame / result shape) does not fit this call -- never a silent dead path
                ctx.note_oblig("%s/contract-fits@%s#%s" % (ctx.proof_label, c.short, nm), "unknown",
                               {"note": "postcondition of the callee contract is inconsistent with the "
                                        "caller's state on this path (frame or result shape incomplete)"})
                raise
    return result


def pure_result(ctx, c, ns):
    """Result of a contract declared pure: an uninterpreted function of the (SMT-sorted)
    arguments, so two applications to equal arguments denote the same value."""
    from .values import str_term, bytes_term, is_strlike, is_byteslike, is_intlike, STR, BSEQ
    terms = []
    sig = []
    for p in c.args:
        if p.startswith("_"):
            continue
        v = ns[p]
        if is_strlike(v):
            terms.append(str_term(v)); sig.append("str")
        elif is_byteslike(v):
            terms.append(bytes_term(v)); sig.append("bytes")
        elif is_intlike(v):
            terms.append(int_term(v)); sig.append("int")
        else:
            raise Unsupported("pure contract %s applied to a non-scalar argument" % c.label)
    rs = {"str": STR, "bytes": BSEQ, "int": z3.IntSort()}[c.pure]
    f = z3.Function("pure!%s!%s" % (c.target, "_".join(sig)), *([t.sort() for t in terms] + [rs]))
    r = f(*terms)
    return {"str": SStr, "int": SInt}.get(c.pure, lambda t: SBytes(term=t))(r)


def set_field(ctx, obj, attr, val):
    """direct store into an object's slot / instance dict (no property code)"""
    from .seqs import SymDict
    if isinstance(obj, SObj):
        if attr in obj.slots or ctx.class_lookup(obj.cls, attr).__class__.__name__ == "member_descriptor":
            if obj.frozen and obj.mutable_elem:
                ctx.bump_elem(obj)
            obj.slots[attr] = val
        elif isinstance(obj.idict, SymDict):
            obj.idict.set(ctx, attr, val)
        else:
            obj.idict[attr] = val
    else:
        ctx.setattr_(obj, attr, val)


def open_dict_of(ctx, ns, path, excluded=()):
    """havoc the named-attribute part of an object's instance dict: keep the entries whose keys
    start with '_' (fields), forget the others, allow unknown further entries"""
    from .seqs import SymDict
    parts = path.split(".")
    cur = ns[parts[0]]
    for p in parts[1:]:
        cur = ctx.getattr_(cur, p)
    known = cur.idict.known if isinstance(cur.idict, SymDict) else cur.idict
    # the NAMED-AVP entries are the keys the containers generate: '<name>_avp' / '<name>_avp__<n>'
    keep = {k: v for k, v in known.items()
            if isinstance(k, str) and not ("_avp" in k and k != "_avps")}
    cur.idict = SymDict(keep, rest=True, excluded=set(keep) | set(excluded))


InterpMixin.apply_contract = apply_contract


# ------------------------------------------------------------------------------------------
#  loops with invariants
# ------------------------------------------------------------------------------------------
def _inv_clauses(spec):
    return list(spec.inv) if isinstance(spec.inv, (list, tuple)) else [spec.inv]


def _prove_inv(ctx, spec, name, ns):
    cl = _inv_clauses(spec)
    for i, f in enumerate(cl):
        nm = name if len(cl) == 1 else "%s#%s" % (name, f.__name__)
        ctx.prove(nm, ctx.as_goal(ctx.call_spec(f, ns)))


def _assume_inv(ctx, spec, ns):
    for f in _inv_clauses(spec):
        ctx.assume(ctx.as_goal(ctx.call_spec(f, ns)))


def exec_loop_with_invariant(ctx, s, fr, spec, kind, iterable=None):
    base = "%s/loop%d" % (ctx.proof_label_for(fr), ctx.loop_key(s, fr))

    def ns_now(extra=None):
        ns = {n: specmod.UNSET for n in spec.vars}
        ns.update(fr.locals)
        ns.update(ctx.ghost)
        if extra:
            ns.update(extra)
        return ns

    def havoc():
        for name, shape in spec.vars.items():
            fr.locals[name] = shape.make(ctx, ctx.fresh_name("loop." + name))
        for path, shape in spec.heap.items():
            parts = path.split(".")
            cur = fr.locals[parts[0]]
            for p in parts[1:-1]:
                cur = ctx.getattr_(cur, p)
            val = shape.make(ctx, ctx.fresh_name("loop." + path))
            set_field(ctx, cur, parts[-1], val)
        for name, shape in spec.ghost.items():
            ctx.ghost[name] = shape.make(ctx, ctx.fresh_name("ghost." + name))
        for (owner, attr), shape in getattr(spec, "state", {}).items():
            val = shape.make(ctx, ctx.fresh_name("loop.%s.%s" % (getattr(owner, "__name__", "?"), attr)))
            if isinstance(owner, type):
                ctx.class_overlay[(owner, attr)] = val
            else:
                ctx.module_overlay[(owner, attr)] = val
        for path in spec.open_dicts:
            open_dict_of(ctx, fr.locals, path)

    if spec.entry is not None:
        ctx.call_spec(spec.entry, ns_now())
    if kind == "while":
        _prove_inv(ctx, spec, base + "/inv-entry", ns_now())
        havoc()
        _assume_inv(ctx, spec, ns_now())
        if ctx.truth(ctx.eval(s.test, fr)):
            if spec.hint is not None:
                ctx.call_spec(spec.hint, ns_now())
            v0 = ctx.call_spec(spec.variant, ns_now()) if spec.variant is not None else None
            try:
                ctx.exec_block(s.body, fr)
            except E._Break:
                return
            except E._Continue:
                pass
            if spec.tail is not None:
                ctx.call_spec(spec.tail, ns_now())
            _prove_inv(ctx, spec, base + "/inv-keep", ns_now())
            if spec.variant is not None:
                v1 = ctx.call_spec(spec.variant, ns_now())
                ctx.prove(base + "/variant", z3.And(int_term(v0) >= 0,
                                                    int_term(v1) <= int_term(v0) - spec.min_decrease))
            raise PathEnd()
        ctx.exec_block(s.orelse, fr)
        return
    # ---- for over the items of a concrete dict, each exactly once, in an ARBITRARY order.
    # Order independence is proved by non-interference: every iteration, run in ISOLATION from the
    # loop-entry state (the other iterations' locals unbound, so reading one raises
    # UnboundLocalError), binds only its own declared locals; the declared write sets are pairwise
    # disjoint.  Then every order computes what the canonical order computes, which is executed.
    if spec.any_order:
        items = ctx.iter_concrete(iterable)
        keys = [it[0] if isinstance(it, tuple) else it for it in items]
        allw = [set(spec.writes.get(k, ())) for k in keys]
        disjoint = all(not (allw[i] & allw[j]) for i in range(len(keys)) for j in range(i))
        ctx.note_oblig(base + "/write-sets-disjoint", "valid" if disjoint else "refuted")
        k = ctx.choose(len(items) + 1, "order")
        if k < len(items):
            before = dict(fr.locals)
            ctx.assign(s.target, items[k], fr)
            try:
                ctx.exec_block(s.body, fr)
            except (E._Break, E._Continue):
                pass
            changed = {n for n, v in fr.locals.items() if n not in before or before[n] is not v}
            tnames = {n.id for n in ast.walk(s.target) if isinstance(n, ast.Name)}
            extra = changed - set(spec.writes.get(keys[k], ())) - tnames - set(spec.temps)
            ctx.note_oblig(base + "/non-interference#%s" % keys[k], "valid" if not extra else "refuted",
                           {"note": "iteration for %r also binds %s" % (keys[k], sorted(extra))} if extra else None)
            raise PathEnd()
        for it in items:
            ctx.assign(s.target, it, fr)
            try:
                ctx.exec_block(s.body, fr)
            except E._Break:
                return
            except E._Continue:
                continue
        ctx.exec_block(s.orelse, fr)
        return
    # ---- for key in <instance dict with unknown entries>: abstract iteration (any count, any order)
    from .interp import SymDictKeys
    from .seqs import SymDict
    if isinstance(iterable, SymDict):
        iterable = SymDictKeys(iterable)
    if isinstance(iterable, SymDictKeys):
        _prove_inv(ctx, spec, base + "/inv-entry", ns_now())
        k = ctx.choose(2, "loop")
        havoc()
        _assume_inv(ctx, spec, ns_now())
        if k == 0:
            ctx.assign(s.target, ctx.fresh_str("key"), fr)
            try:
                ctx.exec_block(s.body, fr)
            except E._Break:
                return
            except E._Continue:
                pass
            _prove_inv(ctx, spec, base + "/inv-keep", ns_now())
            raise PathEnd()
        ctx.exec_block(s.orelse, fr)
        return
    # ---- for x in <symbolic sequence>
    from .seqs import SEnumSeq
    enum_start = None
    if isinstance(iterable, SEnumSeq):
        enum_start = iterable.start
        iterable = iterable.seq
    if isinstance(iterable, (list, tuple)) and ctx.default_elem is not None:
        from .seqs import to_sseq
        iterable = to_sseq(ctx, list(iterable), ctx.default_elem)
    if not isinstance(iterable, SSeq):
        raise Unsupported("loop invariant on a for loop over a non-symbolic iterable")
    seq = iterable
    elem = seq.elem
    dn = spec.done_name
    empty = SSeq(z3.Empty(RSEQ), elem, ("empty",))
    _prove_inv(ctx, spec, base + "/inv-entry", ns_now({dn: empty}))
    k = ctx.choose(2, "loop")
    havoc()
    if k == 0:
        d = z3.Const(ctx.fresh_name("done"), RSEQ)
        x = ctx.fresh_ref("x")
        r = z3.Const(ctx.fresh_name("rest"), RSEQ)
        ctx.assume_raw(seq.term == z3.Concat(d, z3.Unit(x), r))
        done = SSeq(d, elem, ("var",))
        _assume_inv(ctx, spec, ns_now({dn: done}))
        xo = elem.materialize(ctx, x)
        # let folds over the iterated sequence unfold along done ++ [x] ++ rest
        rest = SSeq(r, elem, ("var",))
        unit = SSeq(z3.Unit(x), elem, ("snoc", SSeq(z3.Empty(RSEQ), elem, ("empty",)), xo))
        dx = SSeq(z3.Concat(d, z3.Unit(x)), elem, ("snoc", done, xo))
        whole = SSeq(z3.Concat(d, z3.Unit(x), r), elem, ("concat", dx, rest))
        for sq in (seq, whole):
            for key in list(ctx.fold_done):
                if key[1] == sq.term.get_id():
                    ctx.fold_done.discard(key)
        seq.struct = ("alias", whole)
        for v in list(fr.locals.values()) + list(ctx.ghost.values()):
            if isinstance(v, SSeq) and v is not seq and v.term.get_id() == seq.term.get_id():
                v.struct = ("alias", whole)
        if enum_start is not None:
            ctx.assign(s.target, (SInt(z3.Length(d) + enum_start), xo), fr)
        else:
            ctx.assign(s.target, xo, fr)
        if spec.hint is not None:
            ctx.call_spec(spec.hint, ns_now({dn: done, "rest": rest}))
        try:
            ctx.exec_block(s.body, fr)
        except E._Break:
            return
        except E._Continue:
            pass
        done2 = SSeq(z3.Concat(d, z3.Unit(x)), elem, ("snoc", done, xo))
        _prove_inv(ctx, spec, base + "/inv-keep", ns_now({dn: done2}))
        raise PathEnd()
    _assume_inv(ctx, spec, ns_now({dn: seq}))
    ctx.exec_block(s.orelse, fr)


InterpMixin.exec_loop_with_invariant = exec_loop_with_invariant


def proof_label_for(ctx, fr):
    return ctx.proof_label


InterpMixin.proof_label_for = proof_label_for


# ------------------------------------------------------------------------------------------
#  the proof task of one contract
# ------------------------------------------------------------------------------------------
class TaskResult(object):
    def __init__(self, label):
        self.label = label
        self.obligs = {}       # name -> dict(status, vcs, time, backend set, model, witness, notes)
        self.paths = 0
        self.notes = []
        self.externals = set()
        self.used_contracts = set()
        self.havoc_notes = set()
        self.time = 0.0
        self.sources = {}
        self.controls = {}
        self.bounded = None

    def add(self, name, status, t=0.0, backend="z3", model=None, witness=None, note=None, control=False):
        tab = self.controls if control else self.obligs
        o = tab.setdefault(name, {"status": "valid", "vcs": 0, "time": 0.0, "backends": {},
                                  "model": None, "witness": None, "notes": []})
        o["vcs"] += 1
        o["time"] += t
        o["backends"][backend] = o["backends"].get(backend, 0) + 1
        if note and note not in o["notes"] and len(o["notes"]) < 5:
            o["notes"].append(note)
        rank = {"valid": 0, "unknown": 1, "refuted": 2}
        if rank[status] > rank[o["status"]]:
            o["status"] = status
        if status == "refuted" and o["witness"] is None:
            o["model"] = model
            o["witness"] = witness


def build_engine(repo_root, contracts_dir):
    eng = Engine(repo_root, contracts_dir)
    return eng


def run_contract(eng, c, clause_filter=None):
    """Explore the target under contract c; returns TaskResult."""
    label = "%s/%s" % (c.prop, c.short)
    res = TaskResult(label)
    res.bounded = c.bounded
    t0 = time.time()
    target = c.target_obj

    def thunk(ctx):
        ctx.proof_label = label
        ctx.cur_fn = target if (not isinstance(target, type) and c.call is None) else None
        ctx.cur_contract = c
        # state (class / module attributes)
        ns = {}
        for key, shape in c.state.items():
            owner, attr = key
            val = shape.make(ctx, "%s.%s" % (getattr(owner, "__name__", str(owner)), attr))
            if isinstance(owner, type):
                ctx.class_overlay[(owner, attr)] = val
            else:
                ctx.module_overlay[(owner, attr)] = val
            ns["state_" + attr] = val
        for p, shape in c.args.items():
            ns[p] = shape.make(ctx, p)
        if c.setup is not None:
            c.setup(ctx, ns)
        ctx.entry_ns = dict(ns)
        for g in [p for p in c.args if p.startswith("_")]:
            ctx.ghost[g] = ns[g]
        if c.setup_spec is not None:
            ctx.call_spec(c.setup_spec, ns)
        if c.requires is not None:
            ctx.assume(ctx.as_goal(ctx.call_spec(c.requires, ns)))
        if c.snapshot_spec is not None:
            ctx.call_spec(c.snapshot_spec, ns)
        for fid, region in c.regions.items():
            ctx.assume(z3.Not(ctx.as_goal(ctx.call_spec(region, ns))))
        ctx.witness_ns = {p: (c.args[p], ns[p]) for p in c.args}
        ctx.witness_state = {"%s:%s" % (getattr(k[0], "__module__", "") + "." + getattr(k[0], "__qualname__", getattr(k[0], "__name__", "")), k[1]): (sh, ns["state_" + k[1]])
                             for k, sh in c.state.items()}
        old = types.SimpleNamespace(**{k: ctx.clone(v) for k, v in ns.items()})
        call_args = [ns[p] for p in c.args if not p.startswith("_")]
        outcome = None
        try:
            if c.call is not None:
                result = ctx.call_spec(c.call, ns, strict=False)
            elif isinstance(target, type) and c.kwargs_call:
                result = ctx.instantiate(target, [], {p: ns[p] for p in c.args})
            elif isinstance(target, type):
                result = ctx.instantiate(target, call_args, {})
            elif c.kwargs_call:
                result = ctx.invoke_repo_function(target, [], {p: ns[p] for p in c.args})
            else:
                result = ctx.invoke_repo_function(target, call_args, {})
            outcome = ("ret", result)
        except PyRaise as r:
            outcome = ("raise", r.exc)
        except Blocked as b:
            outcome = ("blocked", b.what)
        ctx.outcome = outcome
        for key in c.state:
            owner, attr = key
            ns["state_" + attr] = (ctx.class_overlay if isinstance(owner, type) else ctx.module_overlay)[(owner, attr)]
        if outcome[0] == "ret":
            ns2 = dict(ns, result=outcome[1], old=old)
            for nm, f in c.ensures.items():
                if clause_filter and nm not in clause_filter:
                    continue
                try:
                    g = ctx.as_goal(ctx.call_spec(f, ns2, strict=False))
                except PyRaise as r:
                    ctx.note_oblig("%s/post#%s" % (label, nm), "unknown",
                                   {"note": "clause not evaluable on this result: %r" % (r.exc,)})
                    continue
                except PathEnd:
                    # vacuity guard: evaluating a postcondition must never silently end the path
                    ctx.note_oblig("%s/post#%s" % (label, nm), "unknown",
                                   {"note": "evaluating this clause ran into an infeasible assumption "
                                            "(an element of a symbolic sequence could not be materialised "
                                            "consistently?)"})
                    raise
                ctx.prove("%s/post#%s" % (label, nm), g, info={"kind": "post"}, assume_after=False)
            for nm, f in c.controls.items():
                if (label, nm) in eng.controls_refuted:
                    continue          # a negative control needs ONE refutation; it is not re-attempted on later paths
                try:
                    g = ctx.as_goal(ctx.call_spec(f, ns2, strict=False))
                except PyRaise as r:
                    continue
                ob = ctx.prove("%s/control#%s" % (label, nm), g,
                               info={"kind": "control"}, assume_after=False)
                ob.info["control"] = True
                if ob.status == "refuted":
                    eng.controls_refuted.add((label, nm))
        elif outcome[0] == "raise":
            exc = outcome[1]
            ns2 = dict(ns, exc=exc, old=old)
            if c.exceptional is not None:
                ctx.prove("%s/post-exc" % label, ctx.as_goal(ctx.call_spec(c.exceptional, ns2)),
                          info={"kind": "post-exc", "exc": exc.cls.__name__}, assume_after=False)
            else:
                ctx.prove("%s/post-exc" % label, z3.BoolVal(False),
                          info={"kind": "post-exc", "exc": exc.cls.__name__,
                                "note": "no exception may escape under this contract"},
                          assume_after=False)
        elif c.when_blocked is not None:
            ns2 = dict(ns, old=old, where=outcome[1])
            ctx.prove("%s/blocked-only-when" % label, ctx.as_goal(ctx.call_spec(c.when_blocked, ns2, strict=False)),
                      info={"kind": "blocks", "what": outcome[1]}, assume_after=False)
        else:
            ctx.prove("%s/never-blocks" % label, z3.BoolVal(False),
                      info={"kind": "blocks", "what": outcome[1]}, assume_after=False)

    ctxs = explore(eng, thunk, max_paths=c.max_paths)
    nret = 0
    for ctx in ctxs:
        res.paths += 1
        res.externals |= set()
        res.used_contracts |= getattr(ctx, "used_contracts", set())
        res.havoc_notes |= getattr(ctx, "havoc_notes", set())
        if ctx.status == "unsupported":
            res.add("%s/exec" % label, "unknown", note="out of subset: %s" % ctx.note)
        if ctx.status == "escaped":
            res.add("%s/exec" % label, "unknown", note="spec/engine raised: %s" % ctx.note)
        if ctx.outcome is not None and (ctx.outcome[0] in ("ret", "raise") or c.when_blocked is not None):
            nret += 1
        for ob in ctx.obligs:
            witness = None
            if ob.status == "refuted":
                witness = make_witness(ctx, c, ob)
            res.add(ob.name, ob.status, ob.time, ob.backend, ob.model, witness,
                    note=(ob.info or {}).get("unknown_reason") or (ob.info or {}).get("note"),
                    control=bool((ob.info or {}).get("control")))
    # vacuity guards
    if c.ensures and nret == 0 and not any(o["status"] != "valid" for o in res.obligs.values()):
        res.add("%s/cover" % label, "unknown", backend="eval",
                note="no feasible path reaches the end of the function: vacuous contract?")
    elif c.ensures:
        res.add("%s/cover" % label, "valid", backend="eval")
    res.time = time.time() - t0
    res.sources = dict(eng.src.used)
    res.externals = set(eng.externals_used)
    return res


def sample_contract(eng, c, max_cases=4, per_case=2):
    """BOUNDED companion of a contract: concrete inputs satisfying its precondition (one typed case per
    explored input path, `per_case` solver models each, the later ones pushed away from the earlier values),
    as witness dictionaries ready for the native replay, which runs the REAL function on them and evaluates
    every clause of the contract.  Nothing of the target is executed here."""
    from .solve import extract_model
    from .engine import Oblig
    label = "%s/%s" % (c.prop, c.short)
    target = c.target_obj
    out = []

    def thunk(ctx):
        ctx.proof_label = label
        ctx.cur_fn = target if (not isinstance(target, type) and c.call is None) else None
        ctx.cur_contract = c
        ns = {}
        for key, shape in c.state.items():
            owner, attr = key
            val = shape.make(ctx, "%s.%s" % (getattr(owner, "__name__", str(owner)), attr))
            if isinstance(owner, type):
                ctx.class_overlay[(owner, attr)] = val
            else:
                ctx.module_overlay[(owner, attr)] = val
            ns["state_" + attr] = val
        for p, shape in c.args.items():
            ns[p] = shape.make(ctx, p)
        if c.setup is not None:
            c.setup(ctx, ns)
        ctx.entry_ns = dict(ns)
        for g in [p for p in c.args if p.startswith("_")]:
            ctx.ghost[g] = ns[g]
        if c.setup_spec is not None:
            ctx.call_spec(c.setup_spec, ns)
        if c.requires is not None:
            ctx.assume(ctx.as_goal(ctx.call_spec(c.requires, ns)))
        for fid, region in c.regions.items():
            ctx.assume(z3.Not(ctx.as_goal(ctx.call_spec(region, ns))))
        ctx.witness_ns = {p: (c.args[p], ns[p]) for p in c.args}
        ctx.witness_state = {"%s:%s" % (getattr(k[0], "__module__", "") + "." + getattr(k[0], "__qualname__", getattr(k[0], "__name__", "")), k[1]): (sh, ns["state_" + k[1]])
                             for k, sh in c.state.items()}
        prev = []
        for i in range(per_case):
            extra = []
            if prev:
                diff = []
                for nm, term in list(ctx.inputs.items())[:40]:
                    v = prev[-1].get(nm)
                    try:
                        if isinstance(v, bool):
                            diff.append(term != z3.BoolVal(v))
                        elif isinstance(v, int):
                            diff.append(term != z3.IntVal(v))
                    except Exception:  # noqa
                        pass
                if diff:
                    extra = [z3.Or(*diff)] if i % 2 else [z3.And(*diff)]
            r = ctx._check(*extra)
            if r != z3.sat and extra:
                r = ctx._check()
                if prev:
                    break
            if r != z3.sat:
                break
            model = extract_model(ctx, ctx.solver.model())
            prev.append(model)
            ob = Oblig("%s/sample" % label, "refuted", model, 0.0, "z3", {})
            w = make_witness(ctx, c, ob)
            w["obligation"] = "%s/sample" % label
            out.append(w)

    ctxs = explore(eng, thunk, max_paths=max_cases)
    return out[:max_cases * per_case]


def make_witness(ctx, c, ob):
    vals = dict(ob.model or {})
    vals["__choices__"] = dict(ctx.shape_choice)
    w = {"args": {}, "state": {}, "obligation": ob.name, "target": c.target,
         "contract": c.label, "model_complete": ob.model is not None}
    if ob.model is None:
        return w
    for p, (shape, made) in ctx.witness_ns.items():
        try:
            w["args"][p] = shape.concretize(vals, p, made)
        except Exception as e:  # noqa
            w["args"][p] = {"t": "error", "v": repr(e)}
    for k, (shape, made) in ctx.witness_state.items():
        nm = k.split(":")[0].rsplit(".", 1)[-1] + "." + k.split(":")[1]
        try:
            w["state"][k] = shape.concretize(vals, nm, made)
        except Exception as e:  # noqa
            w["state"][k] = {"t": "error", "v": repr(e)}
    w["exc"] = ob.info.get("exc") if ob.info else None
    # values the counterexample gives to the results of ASSUMED callee summaries, in call order: the
    # native replay stubs those callees with exactly these values
    w["choices"] = [vals.get(n, 0) for n in getattr(ctx, "choice_names", [])]
    w["choices"] = [int(c) if not isinstance(c, bool) and c is not None else bool(c) for c in w["choices"]]
    w["handler_outcomes"] = [[t, k] for t, k in ctx.ghost.get("outcomes", [])]
    w["stubs"] = []
    for label, rname, shape in getattr(ctx, "summary_returns", []):
        if rname is None:
            w["stubs"].append([label, {"t": "raise", "cls": shape.__module__ + ":" + shape.__qualname__}])
            continue
        try:
            w["stubs"].append([label, shape.concretize(vals, rname, None)])
        except Exception as e:  # noqa
            w["stubs"].append([label, {"t": "error", "v": repr(e)}])
    return w
