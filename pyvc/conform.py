"""pyvc.conform -- BOUNDED companion of a contract: run the REAL function natively on an enumerated
set of small inputs and evaluate the very same contract clauses (requires / ensures / exceptional) on
the results.  Never counted as proved.  Its purpose: when a change restructures a function so that the
deductive proof no longer goes through (new loops without invariants: undecided, not a violation), a
wrong result on a small input is still found, with the failing input in hand.
"""
import copy
import inspect
import itertools
import types


def _call_spec(fn, ns):
    args = []
    for p in inspect.signature(fn).parameters.values():
        if p.name in ns:
            args.append(ns[p.name])
        elif p.default is not inspect._empty:
            args.append(p.default)
        else:
            raise KeyError(p.name)
    return fn(*args)


def find_contract(label):
    from . import api
    for c in api.REGISTRY:
        if c.label == label:
            return c
    raise KeyError(label)


def conform(label, inputs, ghost_values=None, max_fail=6, call=None):
    """inputs: iterable of dicts {arg: value} (non-ghost arguments).  ghost_values(ns) -> {ghost: iterable}
    enumerates the values tried for ghost-universal parameters of a clause.
    returns (checked, skipped_by_requires, failures)"""
    c = find_contract(label)
    target = c.target_obj
    ghosts = [p for p in c.args if p.startswith("_")]
    names = [p for p in c.args if not p.startswith("_")]
    checked = skipped = 0
    failures = []
    for ns in inputs:
        ns = dict(ns)
        if c.requires is not None:
            rp = inspect.signature(c.requires).parameters
            if not any(g in rp for g in ghosts):
                try:
                    if not _call_spec(c.requires, ns):
                        skipped += 1
                        continue
                except Exception:  # noqa
                    skipped += 1
                    continue
        old = types.SimpleNamespace(**{k: copy.deepcopy(v) for k, v in ns.items()})
        shown = {k: repr(v)[:80] for k, v in ns.items()}
        checked += 1
        try:
            if call is not None:
                ret = call(target, ns)
            else:
                ret = target(*[ns[p] for p in names])
        except (KeyboardInterrupt, SystemExit):
            raise
        except BaseException as e:  # noqa  (the library's own error types derive from BaseException)
            ok = False
            if c.exceptional is not None:
                try:
                    ok = bool(_call_spec(c.exceptional, dict(ns, exc=e, old=old)))
                except Exception:  # noqa
                    ok = False
            if not ok:
                failures.append({"input": shown, "raised": "%s%r" % (type(e).__name__, e.args)[:160]})
                if len(failures) >= max_fail:
                    break
            continue
        full = dict(ns, result=ret, old=old)
        for nm, f in c.ensures.items():
            params = inspect.signature(f).parameters
            gs = [g for g in ghosts if g in params]
            combos = [()]
            if gs:
                gv = ghost_values(ns) if ghost_values else {}
                combos = itertools.product(*[list(gv.get(g, [0])) for g in gs])
            bad = None
            for combo in combos:
                try:
                    ok = bool(_call_spec(f, dict(full, **dict(zip(gs, combo)))))
                except (KeyboardInterrupt, SystemExit):
                    raise
                except BaseException as e:  # noqa
                    ok, combo = False, combo + ("clause raised %s" % type(e).__name__,)
                if not ok:
                    bad = combo
                    break
            if bad is not None:
                failures.append({"input": shown, "result": repr(ret)[:120], "clause": nm,
                                 "ghost": list(map(str, bad))})
                break
        if len(failures) >= max_fail:
            break
    return checked, skipped, failures
