"""pyvc.specmodels -- symbolic meaning of the intrinsics in pyvc.spec that are not interpreted
from their own source."""
import z3

from .values import (SInt, SBool, SBytes, SStr, SSeq, SObj, SExc, Sym, Opaque, int_term, is_sym)
from .models import ModelsMixin, _m_int_from_bytes
from . import spec as S


def _raw(ctx, args, kwargs):
    obj, name = args
    if not isinstance(obj, SObj):
        return S.raw(obj, name)
    from .seqs import SymDict
    if isinstance(obj.idict, SymDict):
        if name in obj.idict.known:
            return obj.idict.known[name]
    elif obj.idict is not None and name in obj.idict:
        return obj.idict[name]
    if "_" + name in obj.slots:
        return obj.slots["_" + name]
    ctx.py_raise(AttributeError, "_" + name)


def _slot(ctx, args, kwargs):
    obj, name = args
    if not isinstance(obj, SObj):
        return S.slot(obj, name)
    return obj.slots.get(name, S.UNSET)


def _be(ctx, args, kwargs):
    n, k = args
    if not is_sym(n):
        return int(n).to_bytes(k, "big")
    return ctx.be_bytes(int_term(n), k)


def _unbe(ctx, args, kwargs):
    return _m_int_from_bytes(ctx, [args[0], "big"], {})


ZEROS = z3.Function("zeros", z3.IntSort(), z3.SeqSort(z3.IntSort()))


def _zeros(ctx, args, kwargs):
    """zeros(n) for symbolic n: an uninterpreted sequence-valued function with the ground facts
    zeros(0..3) = literal zero bytes and |zeros(n)| = n -- no path split on the padding residue"""
    from .values import SBytes, seq_of_elems
    n = args[0]
    if not is_sym(n):
        return bytes(n)
    if not getattr(ctx, "_zeros_axioms", False):
        ctx._zeros_axioms = True
        for k in range(0, 4):
            ctx.assume_raw(ZEROS(z3.IntVal(k)) == seq_of_elems([z3.IntVal(0)] * k))
    t = z3.simplify(int_term(n))
    ctx.assume_raw(z3.Implies(t >= 0, z3.Length(ZEROS(t)) == t))
    return SBytes(term=ZEROS(t))


def _lib_error(ctx, args, kwargs):
    exc = args[0]
    import bromelia.exceptions as EX
    cls = exc.cls if isinstance(exc, SExc) else type(exc)
    return any(c.__module__ == EX.__name__ for c in cls.__mro__)


def _raised_in(ctx, args, kwargs):
    exc, name = args
    if not isinstance(exc, SExc):
        return S.raised_in(exc, name)
    return any(q == name or q.endswith("." + name) for q in exc.extra.get("via", ()))


def _same(ctx, args, kwargs):
    return ctx.identical(args[0], args[1])


def _is_instance_of(ctx, args, kwargs):
    return ctx.isinstance_(args[0], args[1])


def _typename(ctx, args, kwargs):
    return ctx.type_of(args[0]).__name__


def _bit(ctx, args, kwargs):
    word, i = args
    n = _m_int_from_bytes(ctx, [word, "big"], {})
    if not is_sym(i) and not is_sym(n):
        return S.bit(word, i)
    if is_sym(i):
        it = int_term(i)
        width = n.nbits if (is_sym(n) and n.nbits is not None) else 64
        if not ctx.branch(z3.And(it >= 0, it < width)):
            if is_sym(n) and n.nbits is not None:
                return 0
            ctx.unsupported("bit() index outside 0..63 of an unbounded word")
    ii = ctx.concretize_int(i, 70, "bit index")
    if ii < 0:
        return 0
    if not is_sym(n):
        return (n >> ii) & 1
    if n.nbits is not None and ii >= n.nbits:
        return 0
    return SInt((int_term(n) / z3.IntVal(1 << ii)) % 2, nbits=1)


def _is_digits(ctx, args, kwargs):
    from .values import SBool, str_term
    s = args[0]
    if not is_sym(s):
        return S.is_digits(s)
    return SBool(z3.InRe(str_term(s), z3.Star(z3.Range("0", "9"))))


def _instantiate_post(ctx, args, kwargs):
    fn = args[0]
    if isinstance(fn, SMethod_):
        fn = fn.func
    rec = ctx.applied.get(fn)
    if rec is None:
        ctx.unsupported("instantiate_post: no contract application of %r on this path" % (fn,))
    c, ns = rec
    ns2 = dict(ns)
    ns2.update(kwargs)
    for nm, f in c.ensures.items():
        ctx.assume(ctx.as_goal(ctx.call_spec(f, ns2)))
    return True


def _assume_pre(ctx, args, kwargs):
    c = ctx.cur_contract
    ns2 = dict(ctx.entry_ns)
    ns2.update(kwargs)
    if c.requires is not None:
        ctx.assume(ctx.as_goal(ctx.call_spec(c.requires, ns2)))
    return True


def _fromhex(ctx, args, kwargs):
    from .models import _m_fromhex, FROMHEX
    from .values import SBytes, str_term
    s = args[0]
    if not is_sym(s):
        return bytes.fromhex(s)
    return SBytes(term=FROMHEX(str_term(s)))


from .values import SMethod as SMethod_
from .values import SObj as SObj_

def _ghost_get(ctx, args, kwargs):
    return ctx.ghost[args[0]]


def _event_log(ctx, args, kwargs):
    return ctx.event_log


def _any_bool(ctx, args, kwargs):
    import z3
    from .values import SBool
    name = "choice.%d.%s" % (len(ctx.choice_names), args[0] if args else "b")
    t = z3.Bool(name)
    ctx.inputs[name] = t
    ctx.choice_names.append(name)
    return SBool(t)


def _any_int(ctx, args, kwargs):
    import z3
    from .values import SInt, int_term
    name = "choice.%d.%s" % (len(ctx.choice_names), args[0])
    t = z3.Int(name)
    ctx.inputs[name] = t
    ctx.choice_names.append(name)
    ctx.assume_raw(z3.And(t >= int_term(args[1]), t <= int_term(args[2])))
    return SInt(t)


def _any_values(ctx, args, kwargs):
    import z3
    from .seqs import SVSeq, VSEQ
    return SVSeq(z3.Const(ctx.fresh_name("env.%s" % (args[0] if args else "v")), VSEQ))


def _ghost_set(ctx, args, kwargs):
    ctx.ghost[args[0]] = args[1]
    return True


def _seq_uncons(ctx, args, kwargs):
    from .values import SSeq, RSEQ
    s = args[0]
    if not isinstance(s, SSeq):
        return S.seq_uncons(s)
    if not getattr(ctx, "_uncons_quiet", False):
        ctx.prove("%s/ghost-nonempty" % ctx.proof_label, z3.Length(s.term) > 0)
    x = ctx.fresh_ref("head")
    rest = SSeq(z3.Const(ctx.fresh_name("tail"), RSEQ), s.elem, ("var",))
    ctx.assume_raw(s.term == z3.Concat(z3.Unit(x), rest.term))
    xo = s.elem.materialize(ctx, x)
    # register the decomposition so folds over s unfold to f(x) (+) F(rest)
    unit = SSeq(z3.Unit(x), s.elem, ("snoc", SSeq(z3.Empty(RSEQ), s.elem, ("empty",)), xo))
    s.struct = ("concat", unit, rest)
    for key in list(ctx.fold_done):
        if key[1] == s.term.get_id():
            ctx.fold_done.discard(key)
    return (xo, rest)


def _seq_snoc(ctx, args, kwargs):
    from .values import SSeq
    s, xo = args
    if not isinstance(s, SSeq):
        if isinstance(xo, SObj_) and ctx.default_elem is not None:
            from .seqs import to_sseq
            s = to_sseq(ctx, s, ctx.default_elem)
        else:
            return S.seq_snoc(s, xo)
    r = s.elem.adopt(ctx, xo)
    return SSeq(z3.Concat(s.term, z3.Unit(r)), s.elem, ("snoc", SSeq(s.term, s.elem, s.struct), xo))


def _seq_empty(ctx, args, kwargs):
    from .values import SSeq, RSEQ
    like = args[0]
    return SSeq(z3.Empty(RSEQ), like.elem, ("empty",))


def _proved(ctx, args, kwargs):
    label = args[1] if len(args) > 1 else kwargs.get("label", "step")
    ctx.prove("%s/step#%s" % (ctx.proof_label, label), ctx.as_goal(args[0]))
    return True


def _use_lemma(ctx, args, kwargs):
    fn, s = args
    ctx.used_contracts.add("lemma:" + fn.__name__)
    ctx.assume(ctx.as_goal(ctx.call_spec(fn, {"s": s})))
    return True


ModelsMixin.FUNCTION_MODELS.update({
    "pyvc.spec.use_lemma": _use_lemma,
    "pyvc.spec.proved": _proved,
    "pyvc.spec.utf8_valid": (lambda ctx, args, kwargs: S.utf8_valid(args[0]) if not is_sym(args[0]) else
                             __import__("pyvc.values", fromlist=["SBool"]).SBool(
                                 __import__("pyvc.models", fromlist=["UTF8_OK"]).UTF8_OK(args[0].term))),
    "pyvc.spec.yaml_file": (lambda ctx, args, kwargs: "config.yaml"),
    "pyvc.spec.ghost_get": _ghost_get,
    "pyvc.spec.ghost_set": _ghost_set,
    "pyvc.spec.event_log": _event_log,
    "pyvc.spec.any_bool": _any_bool,
    "pyvc.spec.any_int": _any_int,
    "pyvc.spec.seq_uncons": _seq_uncons,
    "pyvc.spec.seq_snoc": _seq_snoc,
    "pyvc.spec.seq_empty": _seq_empty,
    "pyvc.spec.is_digits": _is_digits,
    "pyvc.spec.instantiate_post": _instantiate_post,
    "pyvc.spec.assume_pre": _assume_pre,
    "pyvc.spec.fromhex": _fromhex,
    "pyvc.spec.raw": _raw,
    "pyvc.spec.slot": _slot,
    "pyvc.spec.be": _be,
    "pyvc.spec.unbe": _unbe,
    "pyvc.spec.zeros": _zeros,
    "pyvc.spec.lib_error": _lib_error,
    "pyvc.spec.any_values": _any_values,
    "pyvc.spec.raised_in": _raised_in,
    "pyvc.spec.same": _same,
    "pyvc.spec.is_instance_of": _is_instance_of,
    "pyvc.spec.typename": _typename,
    "pyvc.spec.bit": _bit,
})
