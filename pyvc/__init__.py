"""pyvc -- a small contract-based deductive verifier for a subset of Python (see DESIGN.md §2)."""
