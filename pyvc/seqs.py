"""pyvc.seqs -- lists of objects of symbolic length (Seq(Ref) + field functions), fold spec
functions with ground-instantiated defining equations, and instance dictionaries with an
unknown remainder.

Heap-as-functions: an element of a symbolic sequence is a reference r; its fields are
applications f_field(r) of uninterpreted functions.  Elements are immutable snapshots (an
attempt to mutate one is out of subset -> undecided).
"""
import z3

from .values import (SInt, SBool, SBytes, SStr, SSeq, SObj, Sym, REF, RSEQ, BSEQ, STR,
                     bytes_term, bytes_elems, str_term, int_term, is_sym)

_FN_CACHE = {}


def _fn(name, *sorts):
    key = (name,) + tuple(str(s) for s in sorts)
    if key not in _FN_CACHE:
        _FN_CACHE[key] = z3.Function(name, *sorts)
    return _FN_CACHE[key]


class Field(object):
    """description of one field of an element kind.
    kind: ('bytesn', k) | ('bytes',) | ('int',) | ('str',) | ('opt', Field) | ('const', value) | ('none',)
          | ('seq', ElemKind) | ('obj', class, {field name: Field})"""

    def __init__(self, kind, where="slot"):
        self.kind = kind
        self.where = where       # 'slot' | 'idict'


class ElemKind(object):
    """How a reference of a symbolic sequence materialises as an object.  `shapes` is a list of
    (guard name or None, class, {field name: Field}); more than one shape = typed cases chosen
    by an uninterpreted tag function of the reference."""

    def __init__(self, name, shapes, by_identity=True, valid=None):
        self.name = name
        self.shapes = shapes
        self.by_identity = by_identity
        self.valid = valid
        self.tag = _fn("tag!" + name, REF, z3.IntSort())

    # -- field value of reference r
    def field_value(self, ctx, r, sname, fname, fld, assume=True):
        base = "fld!%s!%s!%s" % (self.name, sname, fname)
        k = fld.kind
        if k[0] == "const":
            return k[1]
        if k[0] == "none":
            return None
        if k[0] == "bytesn":
            elems = [_fn("%s!%d" % (base, i), REF, z3.IntSort())(r) for i in range(k[1])]
            if assume:
                for e in elems:
                    ctx.assume_raw(z3.And(e >= 0, e <= 255))
            return SBytes(elems=elems)
        if k[0] == "bytes":
            return SBytes(term=_fn(base, REF, BSEQ)(r))
        if k[0] == "int":
            return SInt(_fn(base, REF, z3.IntSort())(r))
        if k[0] == "str":
            return SStr(_fn(base, REF, STR)(r))
        if k[0] == "obj":
            # a nested object (e.g. the header of a queued message): its own fields are field functions of r too
            sub = SObj(k[1], has_dict=ctx.has_instance_dict(k[1]))
            for sf, sfld in k[2].items():
                v = self.field_value(ctx, r, sname, "%s.%s" % (fname, sf), sfld, assume)
                if sfld.where == "slot":
                    sub.slots[sf] = v
                else:
                    sub.idict[sf] = v
            return sub
        if k[0] == "seq":
            # a nested list of objects (e.g. the AVPs of a ghost wire message): Seq(Ref)-valued field function
            return SSeq(_fn(base, REF, RSEQ)(r), k[1], ("var",))
        if k[0] == "opt":
            has = _fn(base + "!some", REF, z3.BoolSort())(r)
            if ctx.branch(has):
                return self.field_value(ctx, r, sname, fname, Field(k[1].kind), assume)
            return None
        raise ValueError(k)

    def materialize(self, ctx, r):
        """object view of reference r (forks over typed cases / optional fields)"""
        cache = ctx.elem_cache.setdefault(self.name, {})
        key = r.get_id()
        if key in cache:
            return cache[key][1]
        idx = 0
        if len(self.shapes) > 1:
            t = self.tag(r)
            ctx.assume_raw(z3.And(t >= 0, t < len(self.shapes)))
            idx = ctx.concretize_int(SInt(t), len(self.shapes) + 1, "element shape",
                                     domain=range(len(self.shapes)))
        sname, cls, fields = self.shapes[idx]
        o = SObj(cls, has_dict=ctx.has_instance_dict(cls))
        for fname, fld in fields.items():
            v = self.field_value(ctx, r, sname, fname, fld)
            if fld.where == "slot":
                o.slots[fname] = v
            else:
                o.idict[fname] = v
        o.ref = r
        cache[key] = (r, o)
        if self.valid is not None:
            import inspect as _insp
            pname = list(_insp.signature(self.valid).parameters)[0]
            ctx.assume(ctx.as_goal(ctx.call_spec(self.valid, {pname: o})))
        o.frozen = True
        return o

    def adopt(self, ctx, obj):
        """give a concrete-shape object a reference whose field functions equal its current fields"""
        if obj.ref is not None:
            return obj.ref
        r = ctx.fresh_ref("obj")
        matched = None
        for idx, (sname, cls, fields) in enumerate(self.shapes):
            if self._fits(obj, cls, fields):
                matched = (idx, sname, cls, fields)
                break
        if matched is None:
            ctx.unsupported("object %r does not fit element kind %s" % (obj, self.name))
        idx, sname, cls, fields = matched
        if len(self.shapes) > 1:
            ctx.assume_raw(self.tag(r) == idx)
        for fname, fld in fields.items():
            idk = obj.idict.known if isinstance(obj.idict, SymDict) else obj.idict
            cur = obj.slots.get(fname) if fld.where == "slot" else idk.get(fname)
            self._tie(ctx, r, sname, fname, fld, cur)
        obj.ref = r
        obj.frozen = True
        obj.elem_kind = self
        ctx.elem_cache.setdefault(self.name, {})[r.get_id()] = (r, obj)
        return r

    def _fits(self, obj, cls, fields):
        if obj.cls is not cls and not (issubclass(obj.cls, cls) and cls.__name__ != "DiameterAVP"):
            # dictionary subclasses fit the schematic subclass shape (same storage layout)
            idk = obj.idict.known if isinstance(obj.idict, SymDict) else obj.idict
            if not (self._is_dict_shape(fields) and idk is not None and "code" in idk):
                return False
        for fname, fld in fields.items():
            idk = obj.idict.known if isinstance(obj.idict, SymDict) else (obj.idict or {})
            store = obj.slots if fld.where == "slot" else idk
            if fname not in store and fld.kind[0] not in ("none", "opt"):
                return False
        return True

    def _is_dict_shape(self, fields):
        return any(f.where == "idict" for f in fields.values())

    def _tie(self, ctx, r, sname, fname, fld, cur):
        base = "fld!%s!%s!%s" % (self.name, sname, fname)
        k = fld.kind
        if k[0] in ("const", "none"):
            return
        if k[0] == "opt":
            has = _fn(base + "!some", REF, z3.BoolSort())(r)
            if cur is None:
                ctx.assume_raw(z3.Not(has))
                return
            ctx.assume_raw(has)
            k = k[1].kind
        if k[0] == "bytesn":
            el = bytes_elems(cur) if cur is not None else None
            if el is None and cur is not None:
                f = ctx.fix_bytes(cur)
                el = f.elems if f is not None else None
            if el is None or len(el) != k[1]:
                ctx.unsupported("field %s does not have the fixed width %d" % (fname, k[1]))
            for i, e in enumerate(el):
                ctx.assume_raw(_fn("%s!%d" % (base, i), REF, z3.IntSort())(r) == e)
        elif k[0] == "bytes":
            ctx.assume_raw(_fn(base, REF, BSEQ)(r) == bytes_term(cur))
        elif k[0] == "int":
            ctx.assume_raw(_fn(base, REF, z3.IntSort())(r) == int_term(cur))
        elif k[0] == "str":
            ctx.assume_raw(_fn(base, REF, STR)(r) == str_term(cur))
        elif k[0] == "obj":
            for sf, sfld in k[2].items():
                sidk = cur.idict.known if isinstance(cur.idict, SymDict) else (cur.idict or {})
                scur = cur.slots.get(sf) if sfld.where == "slot" else sidk.get(sf)
                self._tie(ctx, r, sname, "%s.%s" % (fname, sf), sfld, scur)
        elif k[0] == "seq":
            if not isinstance(cur, SSeq):
                cur = to_sseq(ctx, list(cur), k[1])
            ctx.assume_raw(_fn(base, REF, RSEQ)(r) == cur.term)

    # -- replay support: read a model
    def register_inputs(self, ctx, name, r):
        pass

    def concretize(self, vals, name):
        return {"t": "none"}


# ------------------------------------------------------------------------------------------
#  folds
# ------------------------------------------------------------------------------------------
class Fold(object):
    """F([]) = unit;  F(s ++ [a]) = F(s) (+) f(a);  F(s ++ t) = F(s) (+) F(t)
    with (+) = bytes/str concatenation or integer addition.  Defining equations are instantiated
    at the ground terms the proof creates, never handed to the solver as quantified axioms."""

    def __init__(self, name, elem_fn, kind):
        self.name = name
        self.elem_fn = elem_fn
        self.kind = kind          # 'bytes' | 'int'
        self.__name__ = name
        self.__qualname__ = name
        self.__module__ = "pyvc.fold"

    # native meaning
    def __call__(self, seq):
        if self.kind == "bytes":
            return b"".join(self.elem_fn(a) for a in seq)
        return sum(self.elem_fn(a) for a in seq)

    def uf(self):
        return _fn("fold!" + self.name, RSEQ, BSEQ if self.kind == "bytes" else z3.IntSort())

    def unit(self):
        return b"" if self.kind == "bytes" else 0

    def apply(self, ctx, seq):
        import ast as _ast
        if isinstance(seq, (list, tuple)):
            acc = self.unit()
            for a in seq:
                acc = ctx.binop(_ast.Add, acc, ctx.call_function(self.elem_fn, [a], {}))
            return acc
        if not isinstance(seq, SSeq):
            ctx.unsupported("fold over %r" % type(seq))
        F = self.uf()
        if ("unit-axiom", self.name) not in ctx.fold_done:
            ctx.fold_done.add(("unit-axiom", self.name))
            if self.kind == "bytes":
                ctx.assume_raw(F(z3.Empty(RSEQ)) == z3.Empty(BSEQ))
            else:
                ctx.assume_raw(F(z3.Empty(RSEQ)) == 0)
        self._instantiate(ctx, seq, F)
        t = F(seq.term)
        return SBytes(term=t) if self.kind == "bytes" else SInt(t)

    def _instantiate(self, ctx, seq, F):
        import ast as _ast
        key = (self.name, seq.term.get_id(), id(seq.struct))
        if key in ctx.fold_done:
            return
        ctx.fold_done.add(key)
        ctx.fold_keep.append(seq.struct)        # keep the tuple alive: its id() is part of the key
        st = seq.struct
        if st[0] == "empty":
            if self.kind == "bytes":
                ctx.assume_raw(F(seq.term) == z3.Empty(BSEQ))
            else:
                ctx.assume_raw(F(seq.term) == 0)
        elif st[0] == "snoc":
            base, xo = st[1], st[2]
            self._instantiate(ctx, base, F)
            fx = ctx.call_function(self.elem_fn, [xo], {})
            if self.kind == "bytes":
                ctx.assume_raw(F(seq.term) == z3.Concat(F(base.term), bytes_term(fx)))
            else:
                ctx.assume_raw(F(seq.term) == F(base.term) + int_term(fx))
        elif st[0] == "alias":
            other = st[1]
            self._instantiate(ctx, other, F)
            ctx.assume_raw(F(seq.term) == F(other.term))
        elif st[0] == "concat":
            a, b = st[1], st[2]
            self._instantiate(ctx, a, F)
            self._instantiate(ctx, b, F)
            if self.kind == "bytes":
                ctx.assume_raw(F(seq.term) == z3.Concat(F(a.term), F(b.term)))
            else:
                ctx.assume_raw(F(seq.term) == F(a.term) + F(b.term))
        if self.kind == "int":
            pass


def fold(name, elem_fn, kind):
    return Fold(name, elem_fn, kind)


# ------------------------------------------------------------------------------------------
#  instance dictionaries with an unknown remainder
# ------------------------------------------------------------------------------------------
class SymDict(object):
    """an instance __dict__: known entries (concrete keys, insertion ordered) + entries stored
    under symbolic keys + an unknown remainder.  `excluded`: names known not to be in the rest."""

    def __init__(self, known=None, rest=True, excluded=(), rest_elem=None):
        self.known = dict(known or {})
        self.sym = []              # [(SStr key, value)]
        self.rest = rest
        self.excluded = set(excluded)
        self.rest_elem = rest_elem
        self._in_rest = {}

    def copy(self):
        d = SymDict(self.known, self.rest, self.excluded, self.rest_elem)
        d.sym = list(self.sym)
        d._in_rest = dict(self._in_rest)
        return d

    def contains(self, ctx, key):
        if not is_sym(key):
            if key in self.known:
                return True
            acc = None
            for k, _ in self.sym:
                c = z3.simplify(k.term == z3.StringVal(key)) if isinstance(key, str) else z3.BoolVal(False)
                acc = c if acc is None else z3.Or(acc, c)
            if not self.rest or key in self.excluded:
                return SBool(acc) if acc is not None else False
            b = self._in_rest.get(key)
            if b is None:
                b = z3.Bool(ctx.fresh_name("in_rest!%s" % key))
                self._in_rest[key] = b
            return SBool(z3.Or(acc, b) if acc is not None else b)
        # symbolic key
        conds = [str_term(key) == z3.StringVal(k) for k in self.known if isinstance(k, str)]
        conds += [str_term(key) == k.term for k, _ in self.sym]
        if self.rest:
            tid = str_term(key).get_id()
            b = self._in_rest.get(("sym", tid))
            if b is None:
                b = z3.Bool(ctx.fresh_name("in_rest!sym"))
                self._in_rest[("sym", tid)] = b
            conds.append(b)
        if not conds:
            return False
        return SBool(z3.Or(*conds))

    def get(self, ctx, key, default):
        from .models import _MISSING
        if not is_sym(key):
            if key in self.known:
                return self.known[key]
            for k, v in reversed(self.sym):
                if ctx.branch(k.term == z3.StringVal(key)):
                    return v
            if self.rest and key not in self.excluded:
                b = self.contains(ctx, key)
                if ctx.truth(b):
                    ctx.unsupported("read of an unknown remainder entry of an instance dict (%r)" % key)
            if default is _MISSING:
                ctx.py_raise(KeyError, key)
            return default
        for k in list(self.known):
            if isinstance(k, str) and ctx.branch(str_term(key) == z3.StringVal(k)):
                return self.known[k]
        for k, v in reversed(self.sym):
            if ctx.branch(k.term == str_term(key)):
                return v
        if self.rest:
            ctx.unsupported("read of an unknown remainder entry of an instance dict")
        if default is _MISSING:
            ctx.py_raise(KeyError, key)
        return default

    def set(self, ctx, key, value):
        if not is_sym(key):
            self.known[key] = value
            self._in_rest.pop(key, None)
            self.excluded.add(key)
            return
        self.sym.append((key, value))

    def pop(self, ctx, key, default):
        from .models import _MISSING
        if not is_sym(key):
            if key in self.known:
                self.excluded.add(key)
                self._in_rest.pop(key, None)
                return self.known.pop(key)
            if self.rest and key not in self.excluded:
                ctx.unsupported("pop of a key that may be in the unknown remainder")
            if default is _MISSING:
                ctx.py_raise(KeyError, key)
            return default
        ctx.unsupported("pop with a symbolic key")


class SAbstractClass(object):
    """the result of a registry lookup with a symbolic key: SOME class registered for the key.
    Calling it applies the schematic constructor contract `ctor` (a python-level function
    (ctx, abstract_class, args, kwargs) -> value) supplied by the sidecar."""

    def __init__(self, kind, key, ctor):
        self.kind = kind
        self.key = key          # dict of interpreter values identifying the class (e.g. code, vendor)
        self.ctor = ctor


class SMapSeq(object):
    """[f(x) for x in <symbolic sequence>]: only membership tests are modelled, as an
    uninterpreted predicate of (sequence, value) named after the source text of f."""

    def __init__(self, seq, key, elt_src):
        self.seq = seq
        self.key = key
        self.elt_src = elt_src


class SEnumSeq(object):
    """enumerate(<symbolic sequence>, start)"""

    def __init__(self, seq, start=0):
        self.seq = seq
        self.start = start


def to_sseq(ctx, value, elem):
    """a concrete list of objects as a symbolic sequence (each element adopted)"""
    if isinstance(value, SSeq):
        return value
    cur = SSeq(z3.Empty(RSEQ), elem, ("empty",))
    for x in value:
        r = elem.adopt(ctx, x)
        cur = SSeq(z3.Concat(cur.term, z3.Unit(r)) if cur.struct[0] != "empty" else z3.Unit(r),
                   elem, ("snoc", cur, x))
    return cur


VSEQ = z3.SeqSort(BSEQ)


class SVSeq(Sym):
    """a list of bytes VALUES of symbolic length: Seq(Seq(Int)); membership is by value"""
    __slots__ = ("term",)

    def __init__(self, term):
        self.term = term

    def __repr__(self):
        return "SVSeq(%s)" % (self.term,)
