"""pyvc.driver -- run the proof tasks of one property, replay counterexamples, write evidence."""
import argparse
import concurrent.futures
import glob
import hashlib
import importlib
import json
import multiprocessing
import os
import re
import subprocess
import sys
import time
import traceback

VERIF = os.path.dirname(os.path.dirname(os.path.abspath(__file__)))
REPO = os.environ.get("REPO", "/repo")
CONTRACTS_DIR = os.path.join(VERIF, "contracts")
KNOWN = os.path.join(VERIF, "known_findings.json")


def install_arena_cache():
    """optional: keep CPython's 16 KiB frame-stack chunks on a free list instead of mmap/munmap-ing one at
    every chunk-boundary crossing of the (deeply recursive) interpreter -- see native/arena_cache.c"""
    so = os.path.join(VERIF, ".venv", "arena_cache.so")
    if os.environ.get("PYVC_NO_ARENA_CACHE") or not os.path.exists(so):
        return False
    try:
        import ctypes
        ctypes.PyDLL(so).pyvc_install_arena_cache()
        return True
    except Exception:  # noqa
        return False


def load_contracts():
    from . import api, verify, specmodels, extmodels  # noqa: F401
    if VERIF not in sys.path:
        sys.path.insert(0, VERIF)
    if getattr(api, "_loaded", False):
        return api
    api._loaded = True
    for f in sorted(glob.glob(os.path.join(CONTRACTS_DIR, "*.py"))):
        name = os.path.basename(f)[:-3]
        if name.startswith("_"):
            continue
        importlib.import_module("contracts." + name)
    for c in api.REGISTRY:
        c.target_obj = verify.resolve_target(c.target)
        c.short = c.target.split("bromelia.", 1)[-1]
        if c.name and not c.name.startswith("_"):
            c.short += "[" + c.name + "]"
        c.label = "%s/%s" % (c.prop, c.short)
    return api


_SCALE = [None]


def machine_scale():
    """how much slower than the reference machine (where the budgets were sized) this run is: the time of a
    fixed, deterministic solver job (pigeonhole 10 into 9) over its reference time; >= 1"""
    if _SCALE[0] is not None:
        return _SCALE[0]
    if os.environ.get("PYVC_TIME_SCALE"):
        _SCALE[0] = float(os.environ["PYVC_TIME_SCALE"])
        return _SCALE[0]
    if not os.environ.get("PYVC_AUTO_SCALE"):
        _SCALE[0] = 1.0
        return 1.0
    import z3
    t = time.time()
    n = 9
    s = z3.Solver()
    p = [[z3.Bool("p_%d_%d" % (i, j)) for j in range(n)] for i in range(n + 1)]
    for i in range(n + 1):
        s.add(z3.Or(p[i]))
    for j in range(n):
        for i in range(n + 1):
            for k in range(i):
                s.add(z3.Or(z3.Not(p[i][j]), z3.Not(p[k][j])))
    s.check()
    _SCALE[0] = max(1.0, min(8.0, (time.time() - t) / 1.4))
    return _SCALE[0]


def make_engine(api):
    from . import verify
    eng = verify.build_engine(REPO, CONTRACTS_DIR)
    eng.scale_timeouts(machine_scale())
    try:
        from contracts.common import AVP_ELEM
        eng.default_elem = AVP_ELEM
    except Exception:  # noqa
        pass
    for c in api.REGISTRY:
        t = c.target_obj
        if c.at_calls:
            eng.contracts.setdefault(t, []).append(c)
        fn = t
        if isinstance(t, type):
            fn = None
            for k in t.__mro__:
                if "__init__" in k.__dict__:
                    fn = k.__dict__["__init__"]
                    break
        if fn is not None and c.loops:
            fname = fn.__module__ + "." + fn.__qualname__
            for k, spec in c.loops.items():
                eng.loopspecs.setdefault((fname, k), spec)
    return eng


_API = None


def _worker(kind, idx, tier):
    """runs in a forked worker: one proof task"""
    global _API
    try:
        from . import verify
        if _API is None:
            _API = load_contracts()
        eng = make_engine(_API)
        if tier == "thorough":
            eng.vc_timeout_ms = int(120000 * eng.time_scale)
            eng.cvc5_timeout_s = int(120 * eng.time_scale)
        if kind == "contract":
            c = _API.REGISTRY[idx]
            # the loop specs of the contract being proved take precedence
            t = c.target_obj
            fn = t
            if isinstance(t, type):
                for k in t.__mro__:
                    if "__init__" in k.__dict__:
                        fn = k.__dict__["__init__"]
                        break
            fname = fn.__module__ + "." + fn.__qualname__
            # a loop spec registered by ANOTHER contract of the same function (used when that function runs as a
            # callee elsewhere) must not leak into this proof: a contract without its own spec for a loop wants the
            # loop unrolled / executed as it is
            for key in [k2 for k2 in eng.loopspecs if k2[0] == fname and k2[1] not in c.loops]:
                del eng.loopspecs[key]
            for k, spec in c.loops.items():
                eng.loopspecs[(fname, k)] = spec
            r = verify.run_contract(eng, c)
        elif kind == "sample":
            r = run_samples(eng, _API.REGISTRY[idx], tier)
        elif kind == "lemma":
            from . import lemmas
            r = lemmas.run_lemma(eng, _API.LEMMAS[idx])
        else:
            name, prop, fn = _API.TABLES[idx]
            r = run_table(name, prop, fn)
        return ("ok", kind, idx, r)
    except Exception:  # noqa
        return ("crash", kind, idx, traceback.format_exc())


def _native_buildable(v):
    """a concretised input the native harness can rebuild faithfully (symbolic sequences whose elements were
    never materialised, opaque reprs and concretisation errors cannot)"""
    if isinstance(v, dict):
        if v.get("t") in ("error", "repr"):
            return False
        if v.get("t") == "list" and any(isinstance(x, dict) and x.get("t") == "none" for x in v.get("items", [])):
            return False          # element of a symbolic sequence the model never materialised
        return all(_native_buildable(x) for x in v.values())
    if isinstance(v, (list, tuple)):
        return all(x is not None and _native_buildable(x) for x in v)
    return True


def run_samples(eng, c, tier):
    """bounded companion of one contract: solver-sampled inputs satisfying its precondition, replayed on the REAL
    code in a fresh process each, every clause of the contract evaluated natively"""
    from . import verify
    from .verify import TaskResult
    label = "%s/%s" % (c.prop, c.short)
    r = TaskResult(label + "[samples]")
    generated = c.sample_budget
    cases, per = (generated if generated is not None else (6 if tier == "thorough" else 3)), 2
    t0 = time.time()
    try:
        ws = verify.sample_contract(eng, c, max_cases=cases, per_case=per)
    except Exception:  # noqa
        ws = []
    d = os.path.join(VERIF, "replays", c.prop, "samples")
    os.makedirs(d, exist_ok=True)
    name = label + "/samples"
    ws = [w for w in ws if w.get("model_complete") and _native_buildable(w.get("args"))
          and _native_buildable(w.get("state"))]
    n = 0
    if ws:
        path = os.path.join(d, re.sub(r"[^A-Za-z0-9_.@-]+", "_", c.short) + ".json")
        with open(path, "w") as f:
            json.dump(ws, f)
        env = dict(os.environ, PYTHONPATH=REPO + os.pathsep + VERIF, PYTHONDONTWRITEBYTECODE="1")
        try:
            p = subprocess.run([sys.executable, "-u", "-m", "pyvc.replay", "--batch", path], capture_output=True,
                               text=True, timeout=60 * len(ws) + 30, env=env, cwd=VERIF)
            lines = [l for l in p.stdout.splitlines() if l.startswith("{")]
        except subprocess.TimeoutExpired:
            lines = []
        for w, line in zip(ws, lines):
            try:
                rr = json.loads(line)
            except Exception:  # noqa
                continue
            n += 1
            if rr.get("confirmed") is True:
                w2 = dict(w, obligation=label + "/sample", sample_detail=rr.get("detail"), outcome=rr.get("outcome"),
                          exc=rr.get("exc"))
                r.add(name, "refuted", backend="native", witness=w2, note=str(rr.get("detail"))[:300])
            elif rr.get("confirmed") is False:
                r.add(name, "valid", backend="native")
            else:
                # the harness could not run this input natively (not a verdict about the code)
                r.add(name, "valid", backend="native-skipped", note=str(rr.get("detail"))[-200:])
        try:
            os.unlink(path)
        except OSError:
            pass
    r.time = time.time() - t0
    r.bounded = "solver-sampled inputs (up to %d typed cases x %d models) replayed on the real code" % (cases, per)
    if n == 0:
        r.obligs.pop(name, None)
    return r


def run_table(name, prop, fn):
    from .verify import TaskResult
    label = "%s/%s" % (prop, name)
    r = TaskResult(label)
    t0 = time.time()
    try:
        out = fn()
    except Exception:  # noqa
        r.add(label + "/table", "unknown", backend="eval", note=traceback.format_exc()[-400:])
        return r
    # out: list of (clause, ok, detail)
    for clause, ok, detail in out:
        w = None
        if not ok:
            w = {"obligation": "%s/table#%s" % (label, clause), "table": True, "detail": detail,
                 "model_complete": False}
        r.add("%s/table#%s" % (label, clause), "valid" if ok else "refuted", backend="eval",
              witness=w, note=None if ok else str(detail)[:300])
    r.time = time.time() - t0
    r.bounded = getattr(fn, "bounded", None)
    return r


def load_known():
    if not os.path.exists(KNOWN):
        return {"findings": []}
    with open(KNOWN) as f:
        return json.load(f)


def run_replay(witness_path, timeout=60):
    py = sys.executable
    env = dict(os.environ, PYTHONPATH=REPO + os.pathsep + VERIF, PYTHONDONTWRITEBYTECODE="1")
    try:
        p = subprocess.run([py, "-u", "-m", "pyvc.replay", witness_path], capture_output=True,
                           text=True, timeout=timeout, env=env, cwd=VERIF)
    except subprocess.TimeoutExpired:
        return {"outcome": "hang", "confirmed": None, "detail": "replay exceeded %ds wall clock" % timeout}
    try:
        line = [l for l in p.stdout.splitlines() if l.startswith("{")][-1]
        return json.loads(line)
    except Exception:  # noqa
        return {"outcome": "error", "confirmed": None, "detail": (p.stdout + p.stderr)[-600:]}


def _child(conn, kind, idx, tier):
    try:
        conn.send(_worker(kind, idx, tier))
    except Exception:  # noqa
        try:
            conn.send(("crash", kind, idx, traceback.format_exc()))
        except Exception:  # noqa
            pass
    finally:
        conn.close()


def run_tasks(tasks, tier, jobs, limit_s, api):
    """one forked process per proof task, at most `jobs` at a time, each under a hard wall-clock
    limit (a solver call that overruns its own budget cannot wedge the check: the task is killed and
    its obligations are reported undecided)"""
    ctxmp = multiprocessing.get_context("fork")
    pending = list(tasks)
    running = []
    results, crashes, timed_out = [], [], []
    while pending or running:
        while pending and len(running) < jobs:
            kind, idx = pending.pop(0)
            parent, child = ctxmp.Pipe(duplex=False)
            p = ctxmp.Process(target=_child, args=(child, kind, idx, tier), daemon=True)
            p.start()
            child.close()
            running.append((p, parent, kind, idx, time.time()))
        still = []
        for p, conn, kind, idx, t0 in running:
            got = None
            if conn.poll(0.02):
                try:
                    got = conn.recv()
                except EOFError:
                    got = ("crash", kind, idx, "worker died without a result (exit code %s)" % p.exitcode)
            elif not p.is_alive():
                if conn.poll(0.2):
                    try:
                        got = conn.recv()
                    except EOFError:
                        got = ("crash", kind, idx, "worker died (exit code %s)" % p.exitcode)
                else:
                    got = ("crash", kind, idx, "worker died without a result (exit code %s)" % p.exitcode)
            elif time.time() - t0 > limit_s:
                p.kill()
                got = ("timeout", kind, idx, None)
            if got is None:
                still.append((p, conn, kind, idx, t0))
                continue
            p.join(1)
            st = got[0]
            if st == "ok":
                results.append(got[3])
            elif st == "timeout":
                timed_out.append((kind, idx))
            else:
                crashes.append(got[3])
        running = still
        if running and not pending:
            time.sleep(0.05)
    from .verify import TaskResult
    for kind, idx in timed_out:
        if kind == "contract":
            label = api.REGISTRY[idx].label
        elif kind == "lemma":
            label = "%s/lemma:%s" % (api.LEMMAS[idx].prop, api.LEMMAS[idx].name)
        else:
            label = "%s/%s" % (api.TABLES[idx][1], api.TABLES[idx][0])
        r = TaskResult(label)
        r.add(label + "/exec", "unknown", note="proof task exceeded its wall-clock limit of %d s and was stopped" % limit_s)
        results.append(r)
    return results, crashes, timed_out


def run_script(path, timeout=120):
    """a known finding's own reproduction script against the tree under check: exit 1 = reproduces"""
    env = dict(os.environ, PYTHONPATH=REPO + os.pathsep + VERIF, PYTHONDONTWRITEBYTECODE="1")
    try:
        p = subprocess.run(["/venv/bin/python" if os.path.exists("/venv/bin/python") else sys.executable,
                            "-u", "-W", "ignore", path], capture_output=True, text=True, timeout=timeout, env=env)
    except subprocess.TimeoutExpired:
        return {"confirmed": True, "outcome": "hang", "detail": "script exceeded %ds" % timeout}
    return {"confirmed": p.returncode == 1, "outcome": "exit %d" % p.returncode,
            "detail": (p.stdout + p.stderr).strip()[-200:]}


def main(argv=None):
    install_arena_cache()
    ap = argparse.ArgumentParser()
    ap.add_argument("prop")
    ap.add_argument("--tier", default=os.environ.get("VERIF_TIER", "quick"))
    ap.add_argument("--replay", default=None)
    ap.add_argument("--jobs", type=int, default=int(os.environ.get("VERIF_JOBS", "16")))
    ap.add_argument("--only", default=None, help="substring filter on contract labels (debug)")
    ap.add_argument("--verbose", "-v", action="store_true")
    ap.add_argument("--no-evidence", action="store_true")
    ap.add_argument("--no-samples", action="store_true", help="skip the sampled-input companions")
    args = ap.parse_args(argv)
    tier = "thorough" if args.tier == "thorough" else "quick"
    os.environ["VERIF_TIER"] = tier          # tables (bounded companions) read their depth from it
    seed = int(os.environ.get("VERIF_SEED", "0") or 0)
    prop = args.prop

    if args.replay:
        res = run_replay(args.replay)
        print(json.dumps(res, indent=1))
        return 1 if res.get("confirmed") else 0

    t_start = time.time()
    global _API
    api = load_contracts()
    _API = api
    tasks = []
    for i, c in enumerate(api.REGISTRY):
        if c.prop == prop or prop in c.also:
            if args.only and not any(x in c.label for x in args.only.split("|")):
                continue
            if c.proof == "table":
                continue          # assumed at call sites; discharged by a table obligation
            tasks.append(("contract", i))
            # (a python-level `setup` hook has no run-time twin: such contracts are not sampled)
            if c.sample_budget != 0 and c.setup is None and not os.environ.get("PYVC_NO_SAMPLES") \
                    and not args.no_samples:
                tasks.append(("sample", i))
    for i, l in enumerate(api.LEMMAS):
        if l.prop == prop and not (args.only and not any(x in l.name for x in args.only.split("|"))):
            tasks.append(("lemma", i))
    for i, (name, p, fn) in enumerate(api.TABLES):
        if p == prop and not (args.only and not any(x in name for x in args.only.split("|"))):
            tasks.append(("table", i))
    if not tasks:
        print("CHECKER-ERROR: no proof task registered for %s" % prop)
        return 3

    results = []
    crashes = []
    timed_out = []
    task_limit = float(os.environ.get("PYVC_TASK_LIMIT_S", "1500" if tier == "thorough" else "420")) * machine_scale()
    # the proofs first, the sampled-input companions afterwards (they must not compete with the solvers for CPU)
    results, crashes, timed_out = run_tasks([t for t in tasks if t[0] != "sample"], tier, args.jobs, task_limit, api)
    r2, c2, t2 = run_tasks([t for t in tasks if t[0] == "sample"], tier, args.jobs, task_limit, api)
    results, crashes = results + r2, crashes + c2          # a sample task that overran is simply not reported

    # ---- aggregate
    obligs = {}
    controls = {}
    bounded_names = {}
    for r in results:
        for name, o in r.obligs.items():
            obligs[name] = o
            if getattr(r, "bounded", None):
                bounded_names[name] = r.bounded
        for name, o in r.controls.items():
            controls[name] = o
    known = load_known()
    open_findings = [f for f in known.get("findings", []) if f.get("status") == "open" and (f.get("property") == prop or prop in f.get("also_properties", []))]

    replay_dir = os.path.join(VERIF, "replays", prop)
    os.makedirs(replay_dir, exist_ok=True)
    violations = []
    undecided = []
    kf_table_reported = []
    n_valid = 0
    backends = {}
    solver_time = 0.0
    max_time = 0.0
    for name in sorted(obligs):
        o = obligs[name]
        solver_time += o["time"]
        max_time = max(max_time, o["time"])
        for b, n in o["backends"].items():
            backends[b] = backends.get(b, 0) + n
        if o["status"] == "valid":
            if name not in bounded_names:
                n_valid += 1
        elif o["status"] == "unknown":
            undecided.append((name, o))
        else:
            violations.append((name, o))

    out_lines = []
    real_violations = []
    exit_code = 0
    confirmed_violations = 0
    table_findings = {f.get("obligation"): f for f in open_findings if f.get("kind") == "table"}
    named_findings = {}
    for f in open_findings:
        if f.get("kind") == "obligations":
            for nm in f.get("obligations", []):
                named_findings[nm] = f
    named_confirmed = {}
    for name, o in violations:
        tf = table_findings.get(name)
        if tf is not None and str((o["witness"] or {}).get("detail")) == str(tf.get("detail")):
            out_lines.append("KNOWN-FINDING: property=%s %s" % (prop, tf.get("what")))
            kf_table_reported.append(tf.get("id"))
            continue
        nf = named_findings.get(name)
        if nf is not None:
            # the finding names exactly which obligations fail and carries its own reproduction; it
            # masks them only while that reproduction still fails on the tree under check
            if nf["id"] not in named_confirmed:
                named_confirmed[nf["id"]] = run_script(os.path.join(VERIF, nf["witness_script"])).get("confirmed")
                if named_confirmed[nf["id"]]:
                    out_lines.append("KNOWN-FINDING: property=%s %s" % (prop, nf.get("what")))
                    kf_table_reported.append(nf.get("id"))
            if named_confirmed[nf["id"]]:
                continue
        safe = name.replace("/", "_").replace("#", "-").replace("[", "_").replace("]", "_")
        wpath = os.path.join(replay_dir, safe + ".json")
        w = o["witness"] or {"obligation": name, "model_complete": False}
        w["property"] = prop
        w["solver"] = {"backends": o["backends"], "notes": o["notes"], "model": _jsonable(o["model"])}
        with open(wpath, "w") as f:
            json.dump(w, f, indent=1, default=str)
        rr = None
        if w.get("model_complete") and not w.get("table"):
            rr = run_replay(wpath)
            w["replay"] = rr
            with open(wpath, "w") as f:
                json.dump(w, f, indent=1, default=str)
        suffix = ""
        if rr is None or not rr.get("confirmed"):
            if w.get("table"):
                suffix = ""
            else:
                suffix = " no-failing-input-found"
        else:
            confirmed_violations += 1
        out_lines.append("VIOLATION property=%s replay=%s obligation=%s%s" % (prop, wpath, name, suffix))
        real_violations.append(name)
        exit_code = 1

    # ---- known findings: replay recorded witnesses
    kf_reported = list(kf_table_reported)
    for f in open_findings:
        if f.get("kind") in ("table", "obligations"):
            continue
        rr = {"confirmed": None}
        wfile = f.get("witness_file")
        if wfile:
            rr = run_replay(os.path.join(VERIF, wfile))
        elif f.get("witness_script"):
            rr = run_script(os.path.join(VERIF, f["witness_script"]))
        if rr.get("confirmed"):
            out_lines.append("KNOWN-FINDING: property=%s %s" % (prop, f.get("what")))
            kf_reported.append(f.get("id"))
        else:
            out_lines.append("NOTE: known finding %s no longer reproduces (%s)" % (f.get("id"), rr.get("detail", rr.get("outcome"))))

    # ---- negative controls must be refuted
    controls_bad = [n for n, o in controls.items() if o["status"] != "refuted"]
    for n in controls_bad:
        out_lines.append("CHECKER-ERROR: negative control %s was not refuted (status %s)" % (n, controls[n]["status"]))
    if crashes:
        for c in crashes:
            out_lines.append("CHECKER-ERROR: task crashed:\n" + c)
    if exit_code == 0 and (crashes or controls_bad):
        exit_code = 3
    if exit_code == 0 and undecided:
        exit_code = 2
    for name, o in undecided:
        out_lines.append("UNDECIDED: %s %s" % (name, "; ".join(o["notes"])[:400]))

    wall = time.time() - t_start
    # ---- evidence
    if not args.no_evidence and not args.only:
        kf_names = [n for n, o in violations if n not in real_violations]
        write_evidence(prop, tier, seed, results, obligs, controls, n_valid,
                       [(n, o) for n, o in violations if n in real_violations], undecided,
                       backends, solver_time, max_time, kf_reported, wall, api, crashes, bounded_names, kf_names)
    print("%s: %d obligations, %d discharged%s, %d refuted, %d undecided, %d negative controls refuted "
          "(%d VCs, %.1fs wall, solver %.1fs)"
          % (prop, len(obligs) - len(set(bounded_names) | set(n for n, o in violations if n not in real_violations)),
             n_valid,
             (" (+%d bounded stand-in obligations, not counted)" % len(bounded_names)) if bounded_names else "",
             len(real_violations), len(undecided),
             sum(1 for o in controls.values() if o["status"] == "refuted"),
             sum(o["vcs"] for o in obligs.values()), wall, solver_time))
    if args.verbose:
        for name in sorted(obligs):
            o = obligs[name]
            print("  %-8s %s (%d VCs, %.2fs, %s)" % (o["status"], name, o["vcs"], o["time"], o["backends"]))
        for name in sorted(controls):
            o = controls[name]
            print("  control %-8s %s" % (o["status"], name))
    for l in out_lines:
        print(l)
    return exit_code


def _jsonable(m):
    if m is None:
        return None
    out = {}
    for k, v in m.items():
        if isinstance(v, (bytes, bytearray)):
            out[k] = {"hex": bytes(v).hex()}
        else:
            out[k] = v
    return out


def write_evidence(prop, tier, seed, results, obligs, controls, n_valid, violations, undecided,
                   backends, solver_time, max_time, kf_reported, wall, api, crashes, bounded_names=None,
                   kf_names=()):
    bounded_names = bounded_names or {}
    functions = sorted({c.target for c in api.REGISTRY if c.prop == prop or prop in c.also})
    trusted = set()
    havoc = set()
    sources = {}
    used_contracts = set()
    for r in results:
        trusted |= set(r.externals)
        havoc |= set(r.havoc_notes)
        used_contracts |= set(r.used_contracts)
        for q, (fn, line, sha) in r.sources.items():
            sources[q] = "%s:%d#%s" % (os.path.relpath(fn, REPO) if fn.startswith(REPO) else os.path.relpath(fn, VERIF), line, sha)
    from .source import DROPPED
    assumptions = [
        "pyvc itself (AST interpreter, descriptor/MRO model, path splitter, VC builder) is trusted; "
        "mitigated by negative controls and vacuity guards on every run, native replay of counterexamples, bounded companions on the real code and the seeded changes of DESIGN.md section 6",
        "z3 %s and cvc5 are trusted" % _z3v(),
        "Python ints are mathematical integers (exact); interpreter stack and memory unbounded (A-STACK)",
        "built-in models follow CPython 3.12 semantics, including exception classes/messages (A-MSG)",
        "module constants and class tables are the values the import of the tree under check yields",
    ]
    for c in api.REGISTRY:
        if c.prop == prop or prop in c.also:
            for a in c.assumes:
                if a not in assumptions:
                    assumptions.append(a)
    samples = []
    for name in sorted(obligs)[:6]:
        o = obligs[name]
        samples.append({"obligation": name, "status": o["status"], "vcs": o["vcs"],
                        "time_s": round(o["time"], 3), "backends": o["backends"]})
    bounded = [{"contract": c.label, "bound": c.bounded} for c in api.REGISTRY
               if (c.prop == prop or prop in c.also) and c.bounded]
    n_unbounded = len(obligs) - len(set(bounded_names) | set(kf_names))
    ev = {
        "property_id": prop,
        "tier": tier,
        "seed": seed,
        "level": "proof" if n_unbounded > 0 else "other",
        "coverage": {
            "obligations": n_unbounded,
            "known_finding_obligations": list(kf_names),
            "discharged": n_valid,
            "bounded_standin_obligations": {n: {"bound": b, "status": obligs[n]["status"]}
                                            for n, b in sorted(bounded_names.items())},
            "checker_cmd": "./check %s --tier %s" % (prop, tier),
            "trusted_base": sorted(trusted) + ["dropped at extraction: " + d for d in DROPPED]
                            + sorted("over-approximated: " + h for h in havoc),
            "vcs": sum(o["vcs"] for o in obligs.values()),
            "functions_under_contract": functions,
            "contracts_used_at_call_sites": sorted(used_contracts),
            "by_backend": backends,
            "solver_time_s": round(solver_time, 2),
            "max_obligation_time_s": round(max_time, 2),
            "undecided": [n for n, _ in undecided],
            "refuted": [n for n, _ in violations],
            "known_findings_reported": kf_reported,
            "negative_controls": {n: o["status"] for n, o in controls.items()},
            "bounded_standins": bounded,
            "verified_source_segments": sources,
            "samples": samples,
            "paths_explored": sum(r.paths for r in results),
            "checker_crashes": len(crashes),
        },
        "assumptions": assumptions,
        "wall_s": round(wall, 2),
        "violations": len(violations),
    }
    if n_unbounded == 0:
        ev["coverage"]["explanation"] = (
            "every obligation of this property is a BOUNDED stand-in (bounds listed under "
            "bounded_standin_obligations): symbolic execution of the real functions with all field "
            "contents symbolic but a bounded number of list elements; decided by the same VC generator "
            "and solvers, not counted as proved")
        ev["coverage"]["evaluations"] = sum(o["vcs"] for o in obligs.values())
        ev["coverage"]["distinct_nontrivial"] = len(bounded_names)
        ev["coverage"]["rule"] = "one evaluation per VC (path x clause); distinct = named obligations"
    os.makedirs(os.path.join(VERIF, "evidence"), exist_ok=True)
    with open(os.path.join(VERIF, "evidence", prop + ".json"), "w") as f:
        json.dump(ev, f, indent=1, sort_keys=True)


def _z3v():
    try:
        import z3
        return z3.get_version_string()
    except Exception:  # noqa
        return "?"


if __name__ == "__main__":
    sys.exit(main())
