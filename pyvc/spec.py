"""pyvc.spec -- intrinsics usable inside spec functions.

Each has a native (CPython) meaning, defined here, used by replays and run-time contract
evaluation; and a symbolic model (pyvc.specmodels) used when building VCs.
"""


def implies(a, b):
    return (not a) or bool(b)


def iff(a, b):
    return bool(a) == bool(b)


def raw(obj, name):
    """Storage of attribute `name` ('code', 'vendor_id', ...) bypassing properties: the
    instance-dict entry when the object has one (dictionary AVP subclasses shadow the
    properties with class attributes), else the slot `_name`."""
    d = getattr(obj, "__dict__", None)
    if d is not None and name in d:
        return d[name]
    return object.__getattribute__(obj, "_" + name)


def slot(obj, name):
    """the __slots__ member `name` read directly (AttributeError -> UNSET)"""
    try:
        return object.__getattribute__(obj, name)
    except AttributeError:
        return UNSET


class _Unset(object):
    def __repr__(self):
        return "UNSET"


UNSET = _Unset()


def be(n, k):
    """big-endian k-byte encoding of 0 <= n < 256**k"""
    return int(n).to_bytes(k, "big")


def unbe(b):
    return int.from_bytes(b, "big")


def zeros(n):
    return bytes(n)


def is_instance_of(exc, cls):
    return isinstance(exc, cls)


def typename(v):
    return type(v).__name__


def same(a, b):
    return a is b


def lib_error(exc):
    """exc is one of the library's own error types (bromelia/exceptions.py)"""
    import bromelia.exceptions as E
    return type(exc).__module__ == E.__name__ or any(
        c.__module__ == E.__name__ for c in type(exc).__mro__)


def raised_in(exc, name):
    """the exception passed through a function whose qualified name is, or ends with, `name`
    (natively: a frame of its traceback; symbolically: the functions / call-site contracts the
    exception propagated out of).  Used to say WHERE a permitted rejection may come from."""
    tb = getattr(exc, "__traceback__", None)
    while tb is not None:
        q = getattr(tb.tb_frame.f_code, "co_qualname", tb.tb_frame.f_code.co_name)
        if q == name or q.endswith("." + name):
            return True
        tb = tb.tb_next
    return False


def str_of_int(n):
    return str(n)


def nth_byte(b, i):
    return b[i]


def bit(word, i):
    """bit i (0 = least significant) of the big-endian integer value of bytes `word`;
    total: 0 for an index outside the word"""
    if i < 0:
        return 0
    return (int.from_bytes(word, "big") >> i) & 1


def is_digits(s):
    """every character of s is a decimal digit (the empty string included)"""
    return all(c in "0123456789" for c in s)


def instantiate_post(fn, **ghost):
    """proof hint: use the postcondition of the last contract application of `fn` at these values
    of its ghost (universally quantified) parameters.  No run-time meaning."""
    return True


def assume_pre(**ghost):
    """proof hint: use the (universally quantified) precondition of the function under proof at
    these values of its ghost parameters.  No run-time meaning."""
    return True


def fromhex(s):
    return bytes.fromhex(s)


def use_lemma(lemma_fn, s):
    """proof hint: the named lemma (proved by its own obligations) holds for sequence s"""
    return True


# ---- ghost state (proof-only; no run-time meaning) -------------------------------------------
_GHOST = {}


def ghost_get(name):
    return _GHOST.get(name)


def ghost_set(name, value):
    _GHOST[name] = value
    return True


def event_log():
    """ghost event log: one entry per call of a function whose contract declares `log_entry`, in call
    order (symbolically: recorded where the contract is applied; natively: recorded by a wrapper)"""
    return _GHOST.setdefault("log", [])


def any_bool(tag="b"):
    """an unknown choice of the environment (scheduler, kernel, peer).  Symbolically: a fresh Boolean
    per call; natively (replay): the value the counterexample chose, in call order (default False)."""
    ch = _GHOST.get("choices") or []
    return bool(ch.pop(0)) if ch else False


def any_int(tag, lo, hi):
    """an unknown integer of the environment with lo <= n <= hi (see any_bool)"""
    ch = _GHOST.get("choices") or []
    n = int(ch.pop(0)) if ch else lo
    return max(lo, min(hi, n))


def any_values(tag="v"):
    """an unknown list of byte-string values chosen by the environment (e.g. what other threads appended to a
    shared registry meanwhile).  Symbolically: a fresh list of symbolic length; natively (replay): empty."""
    return []


def seq_uncons(s):
    """(first element, rest) of a non-empty sequence; the proof must show it is non-empty"""
    return s[0], s[1:]


def seq_snoc(s, x):
    return list(s) + [x]


def seq_empty(like):
    return []


def yaml_file(doc):
    """natively: write the document to a temporary YAML file and return its path (so a replay runs
    the real loader on a real file); symbolically: a fixed path (the file system is not modelled)"""
    import tempfile, yaml
    f = tempfile.NamedTemporaryFile("w", suffix=".yaml", delete=False)
    yaml.safe_dump(doc, f)
    f.close()
    return f.name


def utf8_valid(b):
    try:
        b.decode("utf-8")
    except UnicodeDecodeError:
        return False
    return True


def proved(cond, label="step"):
    """intermediate proof step: the verifier must PROVE cond here (its own obligation) and may use it
    afterwards.  Natively it is just the condition."""
    return bool(cond)
