"""pyvc.shapes -- declarative descriptions of symbolic inputs.

A shape builds (a) a symbolic value for the verifier and (b) from a solver model, a JSON
description from which `pyvc.replay` rebuilds the concrete Python value for the real code.
OneOf shapes are *typed cases*: resolved at the meta level (one exploration branch each), so
every SMT term is well sorted and isinstance/None tests are decided concretely.
"""
import importlib

import z3

from .values import (SInt, SBool, SBytes, SStr, SSeq, SObj, Opaque, BV8, BSEQ, STR, REF, RSEQ)


class Shape(object):
    def make(self, ctx, name):
        raise NotImplementedError

    def concretize(self, ctx_inputs_values, name, made):
        """made: the value returned by make() on that path"""
        raise NotImplementedError


class Int(Shape):
    def __init__(self, lo=None, hi=None):
        self.lo, self.hi = lo, hi

    def make(self, ctx, name):
        t = z3.Int(name)
        ctx.inputs[name] = t
        if self.lo is not None:
            ctx.assume_raw(t >= self.lo)
        if self.hi is not None:
            ctx.assume_raw(t <= self.hi)
        return SInt(t)

    def concretize(self, vals, name, made):
        return {"t": "int", "v": vals.get(name, 0) or 0}


class Bool(Shape):
    def make(self, ctx, name):
        t = z3.Bool(name)
        ctx.inputs[name] = t
        return SBool(t)

    def concretize(self, vals, name, made):
        return {"t": "bool", "v": bool(vals.get(name))}


class Bytes(Shape):
    """bytes of fixed length n (element form) or of any length (n=None)"""

    def __init__(self, n=None, minlen=None, maxlen=None):
        self.n, self.minlen, self.maxlen = n, minlen, maxlen

    def make(self, ctx, name):
        if self.n is not None:
            elems = []
            for i in range(self.n):
                e = z3.Int("%s[%d]" % (name, i))
                ctx.assume_raw(z3.And(e >= 0, e <= 255))
                ctx.inputs["%s[%d]" % (name, i)] = e
                elems.append(e)
            return SBytes(elems=elems)
        t = z3.Const(name, BSEQ)
        ctx.inputs[name] = t
        if self.minlen is not None:
            ctx.assume_raw(z3.Length(t) >= self.minlen)
        if self.maxlen is not None:
            ctx.assume_raw(z3.Length(t) <= self.maxlen)
        return SBytes(term=t)

    def concretize(self, vals, name, made):
        if self.n is not None:
            return {"t": "bytes", "hex": bytes((vals.get("%s[%d]" % (name, i)) or 0) & 255
                                               for i in range(self.n)).hex()}
        v = vals.get(name)
        if not isinstance(v, (bytes, bytearray)):
            v = b""
        return {"t": "bytes", "hex": bytes(v).hex()}


class Str(Shape):
    def __init__(self, minlen=None, maxlen=None):
        self.minlen, self.maxlen = minlen, maxlen

    def make(self, ctx, name):
        t = z3.Const(name, STR)
        ctx.inputs[name] = t
        if self.minlen is not None:
            ctx.assume_raw(z3.Length(t) >= self.minlen)
        if self.maxlen is not None:
            ctx.assume_raw(z3.Length(t) <= self.maxlen)
        return SStr(t)

    def concretize(self, vals, name, made):
        v = vals.get(name)
        return {"t": "str", "v": v if isinstance(v, str) else ""}


class Const(Shape):
    """a fixed concrete Python value (int/str/bytes/None/bool/float, or a global by path)"""

    def __init__(self, value, path=None):
        self.value, self.path = value, path

    def make(self, ctx, name):
        return ctx.lift(self.value)

    def concretize(self, vals, name, made):
        return encode_concrete(self.value, self.path)


def encode_concrete(v, path=None):
    if path is not None:
        return {"t": "global", "path": path}
    if v is None:
        return {"t": "none"}
    if isinstance(v, bool):
        return {"t": "bool", "v": v}
    if isinstance(v, int):
        return {"t": "int", "v": v}
    if isinstance(v, float):
        return {"t": "float", "v": v}
    if isinstance(v, (bytes, bytearray)):
        return {"t": "bytes", "hex": bytes(v).hex()}
    if isinstance(v, str):
        return {"t": "str", "v": v}
    if isinstance(v, (list, tuple)):
        return {"t": "list" if isinstance(v, list) else "tuple", "items": [encode_concrete(x) for x in v]}
    if isinstance(v, dict):
        return {"t": "dict", "items": [[encode_concrete(k), encode_concrete(x)] for k, x in v.items()]}
    if isinstance(v, type):
        return {"t": "global", "path": v.__module__ + ":" + v.__qualname__}
    if isinstance(v, Opaque):
        return {"t": "opaque"}
    return {"t": "repr", "v": repr(v)}


NoneS = Const(None)


class OpaqueS(Shape):
    def make(self, ctx, name):
        return Opaque(name)

    def concretize(self, vals, name, made):
        return {"t": "opaque"}


class OneOf(Shape):
    """typed cases, resolved by a meta-level choice"""

    def __init__(self, *alts):
        self.alts = alts

    def make(self, ctx, name):
        k = ctx.choose(len(self.alts), name)
        ctx.case_log.append((name, k))
        v = self.alts[k].make(ctx, name)
        ctx.shape_choice[name] = k
        return v

    def concretize(self, vals, name, made):
        k = vals["__choices__"].get(name, 0)
        return self.alts[k].concretize(vals, name, made)


class Obj(Shape):
    """an instance of a real class built field by field (no constructor run)"""

    def __init__(self, cls, slots=None, idict=None, valid=None, alias=None, open_dict=False,
                 excluded=()):
        self.cls, self.slots, self.idict = cls, slots or {}, idict
        self.valid = valid
        self.alias = alias or {}      # idict name -> (idict name, index): same object, aliased
        self.open_dict = open_dict    # the instance dict has further, unknown entries
        self.excluded = tuple(excluded)

    def make(self, ctx, name):
        has_dict = ctx.has_instance_dict(self.cls)
        o = SObj(self.cls, has_dict=has_dict)
        for k, sh in self.slots.items():
            o.slots[k] = sh.make(ctx, "%s.%s" % (name, k))
        if self.idict:
            for k, sh in self.idict.items():
                o.idict[k] = sh.make(ctx, "%s.%s" % (name, k))
        for k, (src, idx) in self.alias.items():
            o.idict[k] = o.idict[src][idx] if idx is not None else o.idict[src]
        if self.open_dict:
            from .seqs import SymDict
            o.idict = SymDict(o.idict, rest=True, excluded=self.excluded)
        return o

    def concretize(self, vals, name, made):
        d = {"t": "obj", "cls": self.cls.__module__ + ":" + self.cls.__qualname__,
             "slots": {k: sh.concretize(vals, "%s.%s" % (name, k), None) for k, sh in self.slots.items()},
             "idict": {k: sh.concretize(vals, "%s.%s" % (name, k), None)
                       for k, sh in (self.idict or {}).items()},
             "alias": {k: [src, idx] for k, (src, idx) in self.alias.items()}}
        return d


class ListOf(Shape):
    def __init__(self, *items):
        self.items = items

    def make(self, ctx, name):
        return [sh.make(ctx, "%s[%d]" % (name, i)) for i, sh in enumerate(self.items)]

    def concretize(self, vals, name, made):
        return {"t": "list", "items": [sh.concretize(vals, "%s[%d]" % (name, i), None)
                                       for i, sh in enumerate(self.items)]}


class DictOf(Shape):
    def __init__(self, **items):
        self.items = items

    def make(self, ctx, name):
        return {k: sh.make(ctx, "%s[%s]" % (name, k)) for k, sh in self.items.items()}

    def concretize(self, vals, name, made):
        return {"t": "dict", "items": [[{"t": "str", "v": k}, sh.concretize(vals, "%s[%s]" % (name, k), None)]
                                       for k, sh in self.items.items()]}


class Seq(Shape):
    """a list of objects of symbolic length; `elem` is an ElemKind (see modular.py).
    For replay, the model's length and elements are materialised up to `replay_max`."""

    def __init__(self, elem, replay_max=6):
        self.elem = elem
        self.replay_max = replay_max

    def make(self, ctx, name):
        t = z3.Const(name, RSEQ)
        ctx.inputs[name + ".len"] = z3.Length(t)
        for i in range(self.replay_max):
            self.elem.register_inputs(ctx, "%s[%d]" % (name, i), t[i])
        return SSeq(t, self.elem)

    def concretize(self, vals, name, made):
        n = vals.get(name + ".len") or 0
        n = min(n, self.replay_max)
        return {"t": "list", "items": [self.elem.concretize(vals, "%s[%d]" % (name, i)) for i in range(n)]}


class DateTime(Shape):
    """any naive datetime.datetime (microsecond resolution, year 1..9999)"""

    def make(self, ctx, name):
        from .extmodels import make_datetime
        return make_datetime(ctx, name)

    def concretize(self, vals, name, made):
        return {"t": "datetime", "us": vals.get(name) or 0}


class Float(Shape):
    def __init__(self, v=1.5):
        self.v = v

    def make(self, ctx, name):
        return self.v

    def concretize(self, vals, name, made):
        return {"t": "float", "v": self.v}


class Concat(Shape):
    """bytes: concatenation of bytes shapes"""

    def __init__(self, *parts):
        self.parts = parts

    def make(self, ctx, name):
        vals = [p.make(ctx, "%s.%d" % (name, i)) for i, p in enumerate(self.parts)]
        return ctx.bytes_concat(vals)

    def concretize(self, vals, name, made):
        out = b""
        for i, p in enumerate(self.parts):
            d = p.concretize(vals, "%s.%d" % (name, i), None)
            out += bytes.fromhex(d["hex"])
        return {"t": "bytes", "hex": out.hex()}


class BytesList(Shape):
    """a list of bytes values of any length (e.g. an identifier registry)"""

    def __init__(self, width=None, replay_max=4):
        self.width = width
        self.replay_max = replay_max

    def make(self, ctx, name):
        from .seqs import SVSeq, VSEQ
        t = z3.Const(name, VSEQ)
        ctx.inputs[name + ".len"] = z3.Length(t)
        for i in range(self.replay_max):
            ctx.inputs["%s[%d]" % (name, i)] = t[i]
        return SVSeq(t)

    def concretize(self, vals, name, made):
        n = min(vals.get(name + ".len") or 0, self.replay_max)
        items = []
        for i in range(n):
            v = vals.get("%s[%d]" % (name, i))
            items.append({"t": "bytes", "hex": (v if isinstance(v, (bytes, bytearray)) else b"").hex()})
        return {"t": "list", "items": items}


class Sync(Shape):
    """queue / lock / event / barrier model (see extmodels.SSync)"""

    def __init__(self, kind, **st):
        self.kind, self.st = kind, st

    def make(self, ctx, name):
        from .extmodels import SSync
        st = dict(self.st)
        for k in ("flag", "held"):
            if isinstance(st.get(k), Shape):
                st[k] = st[k].make(ctx, "%s.%s" % (name, k))
        if self.kind == "queue":
            st["items"] = [sh.make(ctx, "%s.q[%d]" % (name, i)) if isinstance(sh, Shape) else sh
                           for i, sh in enumerate(st.get("items", []))]
            if isinstance(st.get("tail"), Shape):      # a MODELLED symbolic sequence of further items
                st["tail"] = st["tail"].make(ctx, name + ".tail")
            if st.get("extra") is True:       # an unknown number (>= 0) of further items behind those
                t = z3.Int(name + ".extra")
                ctx.inputs[name + ".extra"] = t
                ctx.assume_raw(t >= 0)
                st["extra"] = SInt(t)
        if self.kind == "lock":
            st.setdefault("held", False)
        if self.kind == "event":
            st.setdefault("flag", False)
        return SSync(self.kind, **st)

    def concretize(self, vals, name, made):
        d = {"t": "sync", "kind": self.kind}
        if self.kind == "queue":
            d["items"] = [sh.concretize(vals, "%s.q[%d]" % (name, i), None) if isinstance(sh, Shape)
                          else encode_concrete(sh) for i, sh in enumerate(self.st.get("items", []))]
            d["extra"] = vals.get(name + ".extra", 0) if self.st.get("extra") else 0
        else:
            d["st"] = {k: (v if isinstance(v, (bool, int)) else bool(vals.get("%s.%s" % (name, k))))
                       for k, v in self.st.items() if isinstance(v, (bool, int, Shape))}
        return d


class Handler(Shape):
    """an unknown route handler: outcomes = list of ('return', Shape) | ('raise', cls, args) | ('echo',)"""

    def __init__(self, tag, outcomes, name_attr="handler"):
        self.tag, self.outcomes, self.name_attr = tag, outcomes, name_attr

    def make(self, ctx, name):
        from .extmodels import SCallable
        outs = []
        for i, o in enumerate(self.outcomes):
            if o[0] == "return":
                sh = o[1]
                outs.append(("return", (lambda c, a, sh=sh, i=i: sh.make(c, "%s.out%d" % (name, i)))))
            elif o[0] == "echo":
                outs.append(("return", lambda c, a: a[0]))
            else:
                outs.append(o)
        return SCallable(self.tag, outs, {"__name__": self.name_attr})

    def concretize(self, vals, name, made):
        # every outcome as a value the native stand-in can produce; WHICH one is used at each call comes
        # from the witness ("handler_outcomes": the counterexample's choices in call order)
        outs = []
        for i, o in enumerate(self.outcomes):
            if o[0] == "return":
                try:
                    outs.append({"kind": "return", "value": o[1].concretize(vals, "%s.out%d" % (name, i), None)})
                except Exception:  # noqa
                    outs.append({"kind": "return", "value": {"t": "none"}})
            elif o[0] == "echo":
                outs.append({"kind": "echo"})
            else:
                outs.append({"kind": "raise", "cls": o[1].__module__ + ":" + o[1].__qualname__,
                             "args": [encode_concrete(a) for a in o[2]]})
        return {"t": "handler", "tag": self.tag, "name": self.name_attr, "outcomes": outs}


class NTuple(Shape):
    """an instance of a real namedtuple class with the given fields"""

    def __init__(self, cls, **fields):
        self.cls, self.fields = cls, fields

    def make(self, ctx, name):
        return self.cls(**{k: sh.make(ctx, "%s.%s" % (name, k)) for k, sh in self.fields.items()})

    def concretize(self, vals, name, made):
        return {"t": "ntuple", "cls": self.cls.__module__ + ":" + self.cls.__qualname__,
                "fields": {k: sh.concretize(vals, "%s.%s" % (name, k), None) for k, sh in self.fields.items()}}


class AnyDict(Shape):
    """a dict with unknown contents (only written to / probed with known keys by the code under proof)"""

    def make(self, ctx, name):
        from .seqs import SymDict
        return SymDict({}, rest=True)

    def concretize(self, vals, name, made):
        return {"t": "dict", "items": []}


class DictOf2(Shape):
    """dict with arbitrary concrete (hashable) keys: {key: Shape}"""

    def __init__(self, items):
        self.items = items

    def make(self, ctx, name):
        return {k: sh.make(ctx, "%s[%r]" % (name, k)) for k, sh in self.items.items()}

    def concretize(self, vals, name, made):
        return {"t": "dict", "items": [[encode_concrete(k), sh.concretize(vals, "%s[%r]" % (name, k), None)]
                                       for k, sh in self.items.items()]}
