"""pyvc.replay -- rebuild a counterexample as real Python values, run the REAL function on the
tree under check and evaluate the failed contract clause natively.

usage: python -m pyvc.replay <witness.json>   -> prints one JSON line
"""
import importlib
import inspect
import json
import os
import sys
import threading
import traceback
import types


def build(d):
    t = d["t"]
    if t == "int":
        return int(d["v"])
    if t == "bool":
        return bool(d["v"])
    if t == "float":
        return float(d["v"])
    if t == "none":
        return None
    if t == "bytes":
        return bytes.fromhex(d["hex"])
    if t == "str":
        return d["v"]
    if t == "opaque":
        return object()
    if t == "now_s1900":
        import datetime
        d = datetime.datetime.utcnow() - datetime.datetime(1900, 1, 1)
        return d.days * 86400 + d.seconds + int(d.get("offset", 0) if isinstance(d, dict) else 0)
    if t == "datetime":
        import datetime
        return datetime.datetime(1, 1, 1) + datetime.timedelta(microseconds=int(d["us"]))
    if t == "list":
        return [build(x) for x in d["items"]]
    if t == "tuple":
        return tuple(build(x) for x in d["items"])
    if t == "dict":
        return {build(k): build(v) for k, v in d["items"]}
    if t == "global":
        mod, qn = d["path"].split(":")
        o = importlib.import_module(mod)
        for p in qn.split("."):
            o = getattr(o, p)
        return o
    if t == "sync":
        return _native_sync(d)
    if t == "handler":
        return _native_handler(d)
    if t == "ntuple":
        mod, qn = d["cls"].split(":")
        cls = getattr(importlib.import_module(mod), qn)
        return cls(**{k: build(v) for k, v in d["fields"].items()})
    if t == "obj":
        mod, qn = d["cls"].split(":")
        cls = importlib.import_module(mod)
        for p in qn.split("."):
            cls = getattr(cls, p)
        o = cls.__new__(cls)
        for k, v in d.get("slots", {}).items():
            object.__setattr__(o, k, build(v))
        for k, v in d.get("idict", {}).items():
            o.__dict__[k] = build(v)
        for k, (src, idx) in d.get("alias", {}).items():
            o.__dict__[k] = o.__dict__[src][idx] if idx is not None else o.__dict__[src]
        return o
    raise ValueError("cannot rebuild %r" % (d,))


_HANDLER_CHOICES = []


class _NativeHandler(object):
    """stand-in for an unknown route handler: logs every call in the native ghost state and produces the
    outcome the counterexample chose for that call"""

    def __init__(self, d):
        self.tag = d["tag"]
        self.__name__ = d.get("name", "handler")
        self.outcomes = d["outcomes"]

    def __call__(self, *args, **kwargs):
        from pyvc import spec
        spec._GHOST.setdefault("calls", []).append((self.tag, list(args)))
        k = 0
        for i, (t, kk) in enumerate(_HANDLER_CHOICES):
            if t == self.tag:
                k = kk
                del _HANDLER_CHOICES[i]
                break
        o = self.outcomes[k]
        if o["kind"] == "echo":
            return args[0]
        if o["kind"] == "raise":
            mod, qn = o["cls"].split(":")
            cls = importlib.import_module(mod)
            for p in qn.split("."):
                cls = getattr(cls, p)
            raise cls(*[build(a) for a in o["args"]])
        return build(o["value"])


def _native_handler(d):
    return _NativeHandler(d)


def _native_sync(d):
    """real queue / lock / event objects that also answer the `.st` view the contracts read"""
    import queue
    k = d["kind"]
    if k == "queue":
        class Q(queue.Queue):
            @property
            def st(self):
                return {"items": list(self.queue)}
        q = Q()
        for x in d.get("items", []):
            q.put(build(x))
        for _ in range(int(d.get("extra") or 0)):
            q.put(object())
        return q
    if k == "lock":
        class L(object):
            def __init__(self):
                self._l = threading.Lock()

            def acquire(self, *a, **kw):
                return self._l.acquire(*a, **kw)

            def release(self):
                return self._l.release()

            def locked(self):
                return self._l.locked()

            __enter__ = acquire

            def __exit__(self, *a):
                self._l.release()

            @property
            def st(self):
                return {"held": self._l.locked()}
        l = L()
        if d.get("st", {}).get("held"):
            l.acquire()
        return l
    if k == "event":
        class E(threading.Event):
            @property
            def st(self):
                return {"flag": self.is_set()}
        e = E()
        if d.get("st", {}).get("flag"):
            e.set()
        return e
    if k == "barrier":
        return threading.Barrier(1)
    raise ValueError("cannot rebuild sync %r" % (d,))


def _owner_of(parts):
    """the class or module whose attribute parts[-1] is, for a dotted target path; None when that cannot be
    resolved to a plain class/module (e.g. `Class.prop.fget`)"""
    for i in range(len(parts) - 1, 0, -1):
        try:
            obj = importlib.import_module(".".join(parts[:i]))
        except ImportError:
            continue
        for p in parts[i:-1]:
            obj = getattr(obj, p, None)
            if obj is None or isinstance(obj, property):
                return None
        if isinstance(obj, type) or isinstance(obj, types.ModuleType):
            return obj
        return None
    return None


def install_loggers(api, current, stubs=(), choices=(), keep_real=False):
    """natively, the ghost event log is filled by wrappers around the real functions whose contracts
    declare `log_entry` (the function under replay itself is not wrapped)"""
    from pyvc import spec
    spec._GHOST["log"] = []
    spec._GHOST["choices"] = list(choices)
    pending = [list(x) for x in stubs]
    for c in api.REGISTRY:
        if current.prop != c.prop and current.prop not in c.also:
            continue
        if (c.log_entry is None and c.proof != "table" and c.requires is None) or c is current or c.target == current.target \
                or not c.at_calls or isinstance(c.target_obj, type):
            continue
        parts = c.target.split(".")
        owner = _owner_of(parts)
        if owner is None:
            continue          # property accessors and the like are not wrapped
        orig = c.target_obj
        raw = owner.__dict__.get(parts[-1]) if isinstance(owner, type) else getattr(owner, parts[-1], None)
        if isinstance(raw, (property, classmethod)) or raw is None:
            continue
        is_static = isinstance(raw, staticmethod)
        if getattr(orig, "_pyvc_logged", False):
            continue

        def wrapper(*a, _orig=orig, _c=c, **kw):
            if _c.native_accepts is not None:
                try:
                    ba = inspect.signature(_orig).bind(*a, **kw)
                    ba.apply_defaults()
                    if not call_spec(_c.native_accepts, dict(ba.arguments)):
                        return _orig(*a, **kw)
                except Exception:  # noqa
                    return _orig(*a, **kw)
            if _c.requires is not None:
                try:
                    ba = inspect.signature(_orig).bind(*a, **kw)
                    ba.apply_defaults()
                    if not call_spec(_c.requires, dict(ba.arguments)):
                        spec._GHOST.setdefault("pre_failed", []).append(_c.short)
                except Exception:  # noqa
                    pass
            if _c.log_entry is not None:
                try:
                    ba = inspect.signature(_orig).bind(*a, **kw)
                    ba.apply_defaults()
                    spec._GHOST["log"].append(call_spec(_c.log_entry, dict(ba.arguments)))
                except Exception as e:  # noqa
                    spec._GHOST["log"].append(("log-error", repr(e)))
            if _c.proof == "table" and not (keep_real and (_c.native_real or keep_real == "all")):
                # an ASSUMED summary: the callee is replaced by the value the counterexample chose
                if _c.interference is not None:
                    ba = inspect.signature(_orig).bind(*a, **kw)
                    ba.apply_defaults()
                    call_spec(_c.interference, dict(ba.arguments))
                if _c.native_effect is not None:
                    ba = inspect.signature(_orig).bind(*a, **kw)
                    ba.apply_defaults()
                    chosen = None
                    for i, (label, val) in enumerate(pending):
                        if label == _c.label + "#left":
                            del pending[i]
                            chosen = build(val)
                            break
                    call_spec(_c.native_effect, dict(ba.arguments, _chosen=chosen))
                ret = None
                for i, (label, val) in enumerate(pending):
                    if label == _c.label:
                        del pending[i]
                        if val.get("t") == "raise":
                            mod, qn = val["cls"].split(":")
                            raise getattr(importlib.import_module(mod), qn)("stubbed outcome of %s" % label)
                        ret = build(val)
                        break
                if _c.log_result is not None:
                    ba = inspect.signature(_orig).bind(*a, **kw)
                    ba.apply_defaults()
                    spec._GHOST["log"].append(call_spec(_c.log_result, dict(ba.arguments, result=ret)))
                return ret
            ret = _orig(*a, **kw)
            if _c.log_result is not None:
                try:
                    ba = inspect.signature(_orig).bind(*a, **kw)
                    ba.apply_defaults()
                    spec._GHOST["log"].append(call_spec(_c.log_result, dict(ba.arguments, result=ret)))
                except Exception as e:  # noqa
                    spec._GHOST["log"].append(("log-error", repr(e)))
            return ret
        wrapper._pyvc_logged = True
        setattr(owner, parts[-1], staticmethod(wrapper) if is_static else wrapper)


def call_spec(fn, ns):
    sig = inspect.signature(fn)
    args = []
    for p in sig.parameters.values():
        if p.name in ns:
            args.append(ns[p.name])
        elif p.default is not inspect._empty:
            args.append(p.default)
        else:
            raise KeyError(p.name)
    return fn(*args)


def main():
    if len(sys.argv) > 2 and sys.argv[1] == "--batch":
        return batch(sys.argv[2])
    w = json.load(open(sys.argv[1]))
    run_one(w)


def batch(path):
    """several witnesses of one run: the contracts are imported once, every witness is replayed in a forked
    child of this process (isolation of patched classes / registries, hard time limit), one JSON line each"""
    import select
    import signal
    import time
    ws = json.load(open(path))
    from pyvc import driver
    driver.load_contracts()
    for w in ws:
        r, wfd = os.pipe()
        sys.stdout.flush()
        pid = os.fork()
        if pid == 0:
            try:
                os.close(r)
                os.dup2(wfd, 1)
                sys.stdout = os.fdopen(1, "w", closefd=False)
                run_one(w)
                sys.stdout.flush()
            finally:
                os._exit(0)
        os.close(wfd)
        buf, deadline = b"", time.time() + 45
        while time.time() < deadline:
            ready, _, _ = select.select([r], [], [], max(0.0, deadline - time.time()))
            if not ready:
                break
            chunk = os.read(r, 65536)
            if not chunk:
                break
            buf += chunk
        os.close(r)
        try:
            os.kill(pid, signal.SIGKILL)
        except OSError:
            pass
        try:
            os.waitpid(pid, 0)
        except OSError:
            pass
        lines = [l for l in buf.decode("utf-8", "replace").splitlines() if l.startswith("{")]
        print(lines[-1] if lines else json.dumps({"outcome": "error", "confirmed": None,
                                                  "detail": "no result from the replay child"}))
    sys.stdout.flush()


def run_one(w):
    import copy
    out = {"obligation": w.get("obligation"), "outcome": None, "confirmed": None}
    try:
        from pyvc import driver, verify
        api = driver.load_contracts()
        c = [x for x in api.REGISTRY if x.label == w["contract"]][0]
        target = c.target_obj
        ns = {p: build(v) for p, v in w["args"].items()}
        # class / module state
        for key, v in w.get("state", {}).items():
            path, attr = key.split(":")
            owner = verify.resolve_target(path)
            val = build(v)
            setattr(owner, attr, val)
            ns["state_" + attr] = val
        try:
            install_loggers(api, c, w.get("stubs", ()), w.get("choices", ()),
                            keep_real=str(w.get("obligation", "")).endswith("/sample"))
        except Exception:  # noqa   (wrapping is an aid to the oracle, never a reason for a replay to fail)
            out["wrap_error"] = traceback.format_exc()[-300:]
        _HANDLER_CHOICES[:] = [list(x) for x in w.get("handler_outcomes", [])]
        if c.setup_spec is not None:
            call_spec(c.setup_spec, ns)
        if getattr(c, "snapshot_spec", None) is not None:
            call_spec(c.snapshot_spec, ns)
        old = types.SimpleNamespace(**{k: _safe_copy(v) for k, v in ns.items()})
        call_args = [ns[p] for p in c.args if not p.startswith("_")]
        box = {}

        def run():
            try:
                if c.call is not None:
                    box["ret"] = call_spec(c.call, ns)
                elif isinstance(target, type) and c.kwargs_call:
                    box["ret"] = target(**{p: ns[p] for p in c.args})
                elif isinstance(target, type):
                    box["ret"] = target(*call_args)
                elif c.kwargs_call:
                    box["ret"] = target(**{p: ns[p] for p in c.args})
                else:
                    box["ret"] = target(*call_args)
            except BaseException as e:  # noqa
                box["exc"] = e
        th = threading.Thread(target=run, daemon=True)
        th.start()
        th.join(6 if (w["obligation"].endswith("blocked-only-when") or
                      (w["obligation"].endswith("/sample") and c.when_blocked is not None)) else 20)
        if th.is_alive():
            out["outcome"] = "hang"
            out["detail"] = "real function still running after 20 s"
            name = w["obligation"]
            out["confirmed"] = True if ("variant" in name or "never-blocks" in name or "post" in name) else None
            if name.endswith("/sample"):
                if c.when_blocked is None:
                    out["confirmed"] = True
                    out["detail"] = "real function still running after 20 s on a sampled input (no waiting allowed)"
                else:
                    try:
                        ok = bool(call_spec(c.when_blocked, dict(ns, old=old, where="(native: still waiting)")))
                        out["confirmed"] = not ok
                        out["detail"] = "real call is waiting; when_blocked evaluated natively -> %r" % ok
                    except Exception as e:  # noqa
                        out["confirmed"] = None
            if name.endswith("blocked-only-when") and c.when_blocked is not None:
                try:
                    ok = bool(call_spec(c.when_blocked, dict(ns, old=old, where="(native: still waiting)")))
                    out["confirmed"] = not ok
                    out["detail"] = "real call is waiting; when_blocked evaluated natively -> %r" % ok
                except Exception as e:  # noqa
                    out["confirmed"] = None
                    out["detail"] = "when_blocked not evaluable natively: %r" % (e,)
            print(json.dumps(out))
            sys.stdout.flush()
            os._exit(0)
        for key in w.get("state", {}):
            path, attr = key.split(":")
            ns["state_" + attr] = getattr(verify.resolve_target(path), attr)
        name = w["obligation"]
        kind = name.rsplit("/", 1)[-1]
        from pyvc import spec as _spec
        if kind == "sample":
            # bounded companion: EVERY clause of the contract on this concrete input
            bad = []
            if "exc" in box:
                e = box["exc"]
                out["outcome"] = "raise"
                out["exc"] = "%s%r" % (type(e).__name__, e.args)
                if c.exceptional is None:
                    bad.append("no exception allowed, real code raised %s" % type(e).__name__)
                else:
                    try:
                        if not call_spec(c.exceptional, dict(ns, exc=e, old=old)):
                            bad.append("exceptional clause false for %s%r" % (type(e).__name__, e.args))
                    except BaseException as e2:  # noqa
                        bad.append("exceptional clause raised %s" % type(e2).__name__)
            else:
                out["outcome"] = "ret"
                out["value"] = repr(box.get("ret"))[:200]
                for nm, f in c.ensures.items():
                    try:
                        if not call_spec(f, dict(ns, result=box.get("ret"), old=old)):
                            bad.append("clause `%s` false" % nm)
                    except BaseException as e2:  # noqa
                        bad.append("clause `%s` raised %s" % (nm, type(e2).__name__))
            out["confirmed"] = bool(bad)
            out["detail"] = "; ".join(bad)[:600] if bad else "all clauses hold on the real result"
            print(json.dumps(out))
            return
        if kind.startswith("pre@"):
            failed = _spec._GHOST.get("pre_failed", [])
            out["outcome"] = "raise" if "exc" in box else "ret"
            out["confirmed"] = kind[len("pre@"):] in failed
            out["detail"] = "callee preconditions violated natively during the run: %r" % (failed,)
            print(json.dumps(out))
            return
        if "exc" in box:
            e = box["exc"]
            out["outcome"] = "raise"
            out["exc"] = type(e).__name__
            out["exc_args"] = repr(e.args)[:300]
            if kind.startswith("post-exc"):
                if c.exceptional is None:
                    out["confirmed"] = True
                    out["detail"] = "contract allows no exception; real code raised %s" % type(e).__name__
                else:
                    ok = bool(call_spec(c.exceptional, dict(ns, exc=e, old=old)))
                    out["confirmed"] = not ok
                    out["detail"] = "exceptional clause evaluated natively -> %r" % ok
            else:
                out["confirmed"] = False
                out["detail"] = "real code raised where the counterexample predicted a return"
        else:
            out["outcome"] = "ret"
            out["value"] = repr(box.get("ret"))[:300]
            if kind.startswith("post#") or kind.startswith("control#"):
                clause = kind.split("#", 1)[1]
                table = c.ensures if kind.startswith("post#") else c.controls
                ok = bool(call_spec(table[clause], dict(ns, result=box.get("ret"), old=old)))
                out["confirmed"] = not ok
                out["detail"] = "clause `%s` evaluated natively on the real result -> %r" % (clause, ok)
            elif kind.startswith("post-exc"):
                out["confirmed"] = False
                out["detail"] = "real code returned where the counterexample predicted an exception"
            else:
                out["confirmed"] = None
                out["detail"] = "obligation kind %s has no native oracle" % kind
    except Exception:  # noqa
        out["outcome"] = "error"
        out["detail"] = traceback.format_exc()[-800:]
    print(json.dumps(out))


def _safe_copy(v):
    import copy
    try:
        return copy.deepcopy(v)
    except Exception:  # noqa
        return v


if __name__ == "__main__":
    main()
