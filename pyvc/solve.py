"""pyvc.solve -- discharge verification conditions with z3, falling back to cvc5."""
import os
import re
import shutil
import subprocess
import tempfile
import sys
import time

import z3

from .values import BV8

CVC5_BIN = "/usr/bin/cvc5"


def z3_to_py(v):
    """Convert a z3 model value to a Python value (int, bool, bytes, str) or None."""
    try:
        if z3.is_int_value(v):
            return v.as_long()
        if z3.is_true(v):
            return True
        if z3.is_false(v):
            return False
        if z3.is_bv_value(v):
            return v.as_long()
        if z3.is_string_value(v):
            return v.as_string()
        if z3.is_seq(v):
            out = _seq_value(v)
            if out is not None:
                return out
    except Exception:
        pass
    return None


def _seq_value(v):
    """Seq(BV8) value -> bytes"""
    if not z3.is_app(v):
        return None
    k = v.decl().kind()
    if k == z3.Z3_OP_SEQ_EMPTY:
        return b""
    if k == z3.Z3_OP_SEQ_UNIT:
        e = v.arg(0)
        if z3.is_bv_value(e) or z3.is_int_value(e):
            return bytes([e.as_long() & 255])
        return None
    if k == z3.Z3_OP_SEQ_CONCAT:
        parts = [_seq_value(v.arg(i)) for i in range(v.num_args())]
        if any(p is None for p in parts):
            return None
        return b"".join(parts)
    return None


def smt2_for(pc, neg_goal):
    s = z3.Solver()
    for c in pc:
        s.add(c)
    s.add(neg_goal)
    return s.to_smt2()


_REWRITES = [
    (re.compile(r"\bseq\.nth_i\b"), "seq.nth"),
    (re.compile(r"\bseq\.nth_u\b"), "seq.nth"),
    (re.compile(r"\bbv2int\b"), "bv2nat"),
    (re.compile(r"\bubv_to_int\b"), "bv2nat"),
    (re.compile(r"\bint_to_bv\b"), "int2bv"),
    (re.compile(r"\bstr\.from_int\b"), "str.from_int"),
    (re.compile(r"\bint\.to\.str\b"), "str.from_int"),
    (re.compile(r"\bstr\.to\.int\b"), "str.to_int"),
]


Z3_BIN = shutil.which("z3-new") or "/usr/local/bin/z3-new"


def run_z3cli(smt2, timeout_s):
    """the same query in a fresh z3 PROCESS (same version as the Python API): a non-incremental run picks a
    tactic for the logic actually used, and a run that ignores its own timeout is simply killed"""
    txt = smt2
    if "(check-sat)" not in txt:
        txt += "\n(check-sat)\n"
    fd, path = tempfile.mkstemp(suffix=".smt2", prefix="pyvc_z3_")
    try:
        with os.fdopen(fd, "w") as f:
            f.write(txt)
        try:
            p = subprocess.run([Z3_BIN, "-T:%d" % max(1, int(timeout_s + 0.999)), "-t:%d" % int(timeout_s * 1000),
                                "smt.arith.solver=2", path],
                               capture_output=True, text=True, timeout=timeout_s + 5)
        except subprocess.TimeoutExpired:
            return "unknown", "z3 process timeout"
        out = (p.stdout or "").strip().splitlines()
        res = out[0].strip() if out else "unknown"
        if res not in ("sat", "unsat", "unknown"):
            return "unknown", (p.stdout + p.stderr)[:300]
        return res, ""
    finally:
        try:
            os.unlink(path)
        except OSError:
            pass


def fresh_check(ctx, neg, budget_ms, smt2=None):
    """('unsat'|'sat'|'unknown', model or None): decided by a separate z3 process; on 'sat' the model is
    fetched by an in-process fresh solver (a query the process found satisfiable in time)"""
    smt2 = smt2 or smt2_for(ctx.pc, neg)
    res, _ = run_z3cli(smt2, budget_ms / 1000.0)
    if res != "sat":
        return res, None
    s1 = z3.Solver()
    s1.set("timeout", int(budget_ms * 2))
    for c in ctx.pc:
        s1.add(c)
    s1.add(neg)
    if guarded_check(s1, budget_ms * 2) == z3.sat:
        return "sat", extract_model(ctx, s1.model())
    return "sat", None


def run_cvc5(smt2, timeout_s):
    txt = smt2
    for rx, rep in _REWRITES:
        txt = rx.sub(rep, txt)
    txt = "(set-logic ALL)\n" + txt
    if "(check-sat)" not in txt:
        txt += "\n(check-sat)\n"
    fd, path = tempfile.mkstemp(suffix=".smt2", prefix="pyvc_")
    try:
        with os.fdopen(fd, "w") as f:
            f.write(txt)
        try:
            p = subprocess.run([CVC5_BIN, "--lang=smt2", "--strings-exp",
                                "--tlimit=%d" % int(timeout_s * 1000), path],
                               capture_output=True, text=True, timeout=timeout_s + 5)
        except subprocess.TimeoutExpired:
            return "unknown", "cvc5 timeout"
        out = (p.stdout or "").strip().splitlines()
        res = out[0].strip() if out else "unknown"
        if res not in ("sat", "unsat", "unknown"):
            return "unknown", (p.stdout + p.stderr)[:300]
        return res, ""
    finally:
        try:
            os.unlink(path)
        except OSError:
            pass


import threading as _threading


class _Watchdog(object):
    """ONE polling thread per process (re-created after a fork) instead of a timer thread per check: thread
    creation maps and unmaps a stack each time, which is what this sandbox is slowest at"""

    def __init__(self):
        self.lock = _threading.Lock()
        self.deadline = None
        self.ctx = None
        self.pid = None

    def _run(self):
        while True:
            time.sleep(0.2)
            with self.lock:
                if self.deadline is not None and time.time() > self.deadline:
                    try:
                        self.ctx.interrupt()
                    except Exception:  # noqa
                        pass
                    self.deadline = None

    def arm(self, z3ctx, seconds):
        if self.pid != os.getpid():
            self.pid = os.getpid()
            self.lock = _threading.Lock()
            t = _threading.Thread(target=self._run, daemon=True)
            t.start()
        with self.lock:
            self.ctx = z3ctx
            self.deadline = time.time() + seconds

    def disarm(self):
        with self.lock:
            self.deadline = None


_WATCHDOG = _Watchdog()


def guarded_check(solver, budget_ms, *extra):
    """solver.check() with a watchdog: z3 sometimes overruns its own timeout inside string /
    arithmetic preprocessing; the watchdog interrupts the context (result: unknown)."""
    _WATCHDOG.arm(solver.ctx, budget_ms / 1000.0 * 1.5 + 1.0)
    try:
        return solver.check(*extra)
    except z3.Z3Exception:
        return z3.unknown
    finally:
        _WATCHDOG.disarm()


def forked_fresh_check(ctx, neg, budget_ms):
    """a fresh (non-incremental) z3 run in a FORKED child, killed when it overruns: z3 5.1 sometimes ignores
    both its timeout and interrupt() inside sequence/arithmetic preprocessing, and a check that never
    returns would take the whole proof task with it.  -> ('unsat'|'sat'|'unknown', model dict or None)"""
    import pickle
    import select
    import signal
    r, w = os.pipe()
    pid = os.fork()
    if pid == 0:
        try:
            os.close(r)
            s1 = z3.Solver()
            s1.set("timeout", int(budget_ms))
            for c in ctx.pc:
                s1.add(c)
            s1.add(neg)
            res = s1.check()
            out = ("unknown", None)
            if res == z3.unsat:
                out = ("unsat", None)
            elif res == z3.sat:
                out = ("sat", extract_model(ctx, s1.model()))
            data = pickle.dumps(out)
            os.write(w, len(data).to_bytes(8, "big") + data)
        except BaseException:  # noqa
            pass
        finally:
            os._exit(0)
    os.close(w)
    out = ("unknown", None)
    deadline = time.time() + budget_ms / 1000.0 * 1.5 + 2.0
    buf = b""
    try:
        while True:
            left = deadline - time.time()
            if left <= 0:
                break
            ready, _, _ = select.select([r], [], [], left)
            if not ready:
                break
            chunk = os.read(r, 1 << 20)
            if not chunk:
                break
            buf += chunk
            if len(buf) >= 8 and len(buf) >= 8 + int.from_bytes(buf[:8], "big"):
                break
        if len(buf) >= 8 and len(buf) >= 8 + int.from_bytes(buf[:8], "big"):
            try:
                out = pickle.loads(buf[8:8 + int.from_bytes(buf[:8], "big")])
            except Exception:  # noqa
                out = ("unknown", None)
    finally:
        os.close(r)
        try:
            os.kill(pid, signal.SIGKILL)
        except OSError:
            pass
        try:
            os.waitpid(pid, 0)
        except OSError:
            pass
    return out


def discharge(ctx, name, goal, info=None):
    from .engine import Oblig
    eng = ctx.eng
    t0 = time.time()
    g = z3.simplify(goal)
    if z3.is_true(g):
        return Oblig(name, "valid", None, 0.0, "simplify", info)
    neg = z3.Not(goal)
    stringy = _has_strings(ctx.pc, goal)
    # the incremental context rarely decides sequence-heavy VCs: give it a short try only
    ts = getattr(eng, "time_scale", 1.0)
    quick_ms = int(300 * ts) if stringy else min(eng.vc_timeout_ms, int(1500 * ts))
    s = ctx.solver
    s.push()
    s.set("timeout", quick_ms)
    model = None
    reason = ""
    try:
        s.add(neg)
        r = guarded_check(s, quick_ms)
        if r == z3.sat:
            model = extract_model(ctx, s.model())
        reason = "unknown" if r == z3.unknown else ""
    finally:
        s.pop()
        s.set("timeout", eng.branch_timeout_ms)
    backend = "z3"
    status = "valid" if r == z3.unsat else ("refuted" if r == z3.sat else "unknown")
    size = 0
    if status == "unknown":
        # a fresh (non-incremental) z3 picks a tactic for the logic actually used
        s1 = z3.Solver()
        s1.set("timeout", min(eng.vc_timeout_ms, int(5000 * ts)))
        for c in ctx.pc:
            s1.add(c)
        s1.add(neg)
        r1 = guarded_check(s1, min(eng.vc_timeout_ms, int(5000 * ts)))
        if r1 == z3.unsat:
            status = "valid"
            backend = "z3-fresh"
        elif r1 == z3.sat:
            status = "refuted"
            backend = "z3-fresh"
            model = extract_model(ctx, s1.model())
    if status == "unknown":
        # cvc5 next (it decides most string/sequence queries z3 leaves open), then a long z3 run
        smt2 = smt2_for(ctx.pc, neg)
        size = len(smt2)
        res, msg = run_cvc5(smt2, eng.cvc5_timeout_s)
        if res == "unsat":
            status = "valid"
            backend = "cvc5"
        else:
            r2, m2 = fresh_check(ctx, neg, eng.vc_timeout_ms, smt2)
            if r2 == "unsat":
                status = "valid"
                backend = "z3-fresh"
            elif r2 == "sat":
                status = "refuted"
                backend = "z3-fresh"
                model = m2
            elif res == "sat":
                status = "refuted"      # cvc5 counterexample, no model through this path
                backend = "cvc5"
                model = None
            else:
                info = dict(info or {})
                info["unknown_reason"] = "z3: %s; cvc5: %s" % (reason, msg or res)
    dt = time.time() - t0
    eng.stats["solver_time"] += dt
    if dt > 5 and os.environ.get("PYVC_SLOW_LOG"):
        sys.stderr.write("SLOW %.1fs %s %s %s\n" % (dt, status, backend, name))
    ob = Oblig(name, status, model, dt, backend, info, size)
    return ob


def _has_strings(pc, goal):
    txt = goal.sexpr() if len(pc) > 40 else " ".join([goal.sexpr()] + [c.sexpr() for c in pc[-40:]])
    return ("str." in txt) or ("seq." in txt) or ("String" in txt)


def extract_model(ctx, m):
    out = {}
    for nm, term in ctx.inputs.items():
        try:
            v = m.eval(term, model_completion=True)
            out[nm] = z3_to_py(v)
        except Exception:
            out[nm] = None
    return out
