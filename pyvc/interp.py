"""pyvc.interp -- statements, expressions, attribute protocol and calls."""
import ast
import builtins
import sys
import types

import z3

from .values import (SInt, SBool, SBytes, SStr, SSeq, SObj, SExc, SMethod, SClosure, Sym,
                     Opaque, is_sym, is_intlike, is_byteslike, is_strlike)

from .seqs import Fold, SymDict, ElemKind, SAbstractClass, SMapSeq
from .extmodels import SExt, ext_getattr, ext_str, ext_binop, SSync, sync_method, SCallable, call_scallable

_MISSING = object()
_member_descriptor = type(type("_S", (), {"__slots__": ("a",)}).a)


def _engine_excs():
    from . import engine
    return engine


class InterpMixin(object):
    # ================================================================ exceptions
    def py_raise(self, cls, *args):
        E = _engine_excs()
        raise E.PyRaise(SExc(cls, args))

    def unsupported(self, msg):
        E = _engine_excs()
        raise E.Unsupported(msg)

    # ================================================================ truthiness / isinstance
    def truth(self, v):
        if isinstance(v, SBool):
            return self.branch(v.term)
        if isinstance(v, SInt):
            return self.branch(v.term != 0)
        if isinstance(v, SBytes):
            if v.elems is not None:
                return len(v.elems) > 0
            return self.branch(z3.Length(v.term) > 0)
        if isinstance(v, SStr):
            return self.branch(z3.Length(v.term) > 0)
        if isinstance(v, SSeq) or type(v).__name__ == "SVSeq":
            return self.branch(z3.Length(v.term) > 0)
        if isinstance(v, SObj):
            m = self.class_lookup(v.cls, "__bool__")
            if m is not _MISSING and m is not None:
                return self.truth(self.call_function(m, [v], {}))
            m = self.class_lookup(v.cls, "__len__")
            if m is not _MISSING and m is not None:
                n = self.call_function(m, [v], {})
                return self.truth(self.compare("!=", n, 0))
            return True
        if isinstance(v, (SExc, SMethod, SClosure, Opaque, SExt, SSync, SCallable)):
            return True
        if type(v).__name__ == "SSplit":
            return True          # str.split never returns an empty list
        return bool(v)

    def isinstance_(self, v, cls):
        if isinstance(cls, tuple):
            return any(self.isinstance_(v, c) for c in cls)
        if isinstance(v, SInt):
            return cls in (int, object)
        if isinstance(v, SBool):
            return cls in (bool, int, object)
        if isinstance(v, SBytes):
            return cls in (bytes, object)
        if isinstance(v, SStr):
            return cls in (str, object)
        if isinstance(v, SSeq) or type(v).__name__ == "SVSeq":
            return cls in (list, object)
        if isinstance(v, SObj):
            return isinstance(cls, type) and issubclass(v.cls, cls)
        if isinstance(v, (SExc, SExt)):
            return isinstance(cls, type) and issubclass(v.cls, cls)
        if isinstance(v, (SMethod, SClosure, SSync, SCallable)):
            return cls is object
        if isinstance(v, Opaque):
            return cls is object
        return isinstance(v, cls)

    def type_of(self, v):
        if isinstance(v, SInt):
            return int
        if isinstance(v, SBool):
            return bool
        if isinstance(v, SBytes):
            return bytes
        if isinstance(v, SStr):
            return str
        if isinstance(v, SSeq) or type(v).__name__ == "SVSeq":
            return list
        if isinstance(v, (SObj, SExc, SExt)):
            return v.cls
        if isinstance(v, Opaque):
            return object
        return type(v)

    # ================================================================ attribute protocol
    def class_lookup(self, cls, name):
        for c in cls.__mro__:
            if (c, name) in self.class_overlay:
                return self.class_overlay[(c, name)]
            if name in c.__dict__:
                return c.__dict__[name]
        return _MISSING

    def has_instance_dict(self, cls):
        return any("__dict__" in c.__dict__ for c in cls.__mro__)

    def mangle(self, fr, name):
        if fr.clsname and name.startswith("__") and not name.endswith("__"):
            return "_" + fr.clsname.lstrip("_") + name
        return name

    def getattr_(self, obj, name, default=_MISSING):
        if isinstance(obj, SObj):
            return self._getattr_sobj(obj, name, default)
        if isinstance(obj, SExc):
            if name == "args":
                return obj.args
            if name == "__class__":
                return obj.cls
            if name in obj.extra:
                return obj.extra[name]
            v = self.class_lookup(obj.cls, name)
            if v is not _MISSING:
                return v
            if default is not _MISSING:
                return default
            self.py_raise(AttributeError, "'%s' object has no attribute '%s'" % (obj.cls.__name__, name))
        if isinstance(obj, SExt):
            return ext_getattr(self, obj, name)
        if isinstance(obj, SSync):
            if name == "st":
                return obj.st
            if name == "queue" and obj.kind == "queue":
                # queue.Queue.queue: the underlying deque (same items, no blocking, no locking)
                d = SSync("deque")
                d.st = obj.st
                return d
            return SMethod(obj, None, name)
        if isinstance(obj, SCallable):
            if name == "tag":
                return obj.tag
            if name in obj.attrs:
                return obj.attrs[name]
            self.py_raise(AttributeError, name)
        if isinstance(obj, Sym):
            if name == "__class__":
                return self.type_of(obj)
            if not hasattr(self.type_of(obj), name):
                if default is not _MISSING:
                    return default
                self.py_raise(AttributeError, "'%s' object has no attribute '%s'"
                              % (self.type_of(obj).__name__, name))
            return SMethod(obj, None, name)
        if isinstance(obj, Opaque):
            if default is not _MISSING:
                return default
            self.py_raise(AttributeError, "'object' object has no attribute '%s'" % name)
        if isinstance(obj, type) and self.eng.is_repo_class(obj):
            v = self.class_lookup(obj, name)
            if v is not _MISSING:
                if isinstance(v, staticmethod):
                    return v.__func__
                if isinstance(v, classmethod):
                    return SMethod(obj, v.__func__)
                return v
        if isinstance(obj, (list, dict)) and name in self.CONTAINER_METHODS:
            return SMethod(obj, None, name)
        if isinstance(obj, (SymDict, SymDictKeys)):
            return SMethod(obj, None, name)
        if isinstance(obj, set) and name == "issubset":
            return SMethod(obj, None, name)
        if type(obj).__name__ in ("SymSet", "SMapSeq") and name == "issubset":
            return SMethod(obj, None, name)
        # raw python object / module / class
        if isinstance(obj, types.ModuleType) and (obj, name) in self.module_overlay:
            return self.module_overlay[(obj, name)]
        try:
            if default is not _MISSING:
                return getattr(obj, name, default)
            return getattr(obj, name)
        except AttributeError as e:
            self.py_raise(AttributeError, *e.args)

    def _getattr_sobj(self, obj, name, default=_MISSING):
        if name == "__dict__":
            if obj.idict is None:
                self.py_raise(AttributeError, "no __dict__")
            return obj.idict
        if name == "__class__":
            return obj.cls
        cattr = self.class_lookup(obj.cls, name)
        if cattr is not _MISSING:
            if isinstance(cattr, property):
                if cattr.fget is None:
                    self.py_raise(AttributeError, "unreadable attribute")
                if not self.eng.is_repo_function(cattr.fget) and obj.idict is not None \
                        and not isinstance(obj.idict, SymDict) and name in obj.idict:
                    # property of an external base class (e.g. multiprocessing.Process.name): the
                    # shape supplies the value directly
                    return obj.idict[name]
                return self.call_function(cattr.fget, [obj], {})
            if isinstance(cattr, _member_descriptor):
                if name in obj.slots:
                    return obj.slots[name]
                if default is not _MISSING:
                    return default
                self.py_raise(AttributeError, "'%s' object has no attribute '%s'" % (obj.cls.__name__, name))
        if isinstance(obj.idict, SymDict):
            # A-NAMES: unknown entries of an instance dict never shadow class attributes
            if name in obj.idict.known or cattr is _MISSING:
                if self.truth(obj.idict.contains(self, name)):
                    return obj.idict.get(self, name, _MISSING)
        elif obj.idict is not None and name in obj.idict:
            return obj.idict[name]
        if cattr is not _MISSING:
            if isinstance(cattr, types.FunctionType):
                return SMethod(obj, cattr)
            if isinstance(cattr, staticmethod):
                return cattr.__func__
            if isinstance(cattr, classmethod):
                return SMethod(obj.cls, cattr.__func__)
            return cattr
        if default is not _MISSING:
            return default
        self.py_raise(AttributeError, "'%s' object has no attribute '%s'" % (obj.cls.__name__, name))

    def bump_elem(self, obj):
        """a MUTABLE member of a symbolic sequence is about to be assigned to: its current reference keeps
        denoting the pre-assignment content (a frozen snapshot); the object gets a fresh reference, tied to
        its new field values, the next time a list that names it is read (SSeq.term)"""
        if obj.ref is None:
            return
        snap = self.clone(obj, deep=False)
        snap.frozen, snap.mutable_elem = True, False
        if obj.elem_kind is not None:
            self.elem_cache.setdefault(obj.elem_kind.name, {})[obj.ref.get_id()] = (obj.ref, snap)
        obj.ref = None
        obj.frozen = False

    def setattr_(self, obj, name, value):
        if isinstance(obj, SObj):
            if obj.frozen:
                if not obj.mutable_elem:
                    self.unsupported("mutation of an object already placed in a symbolic sequence")
                self.bump_elem(obj)
            cattr = self.class_lookup(obj.cls, name)
            if isinstance(cattr, property):
                if cattr.fset is None:
                    self.py_raise(AttributeError, "can't set attribute '%s'" % name)
                self.call_function(cattr.fset, [obj, value], {})
                return
            if isinstance(cattr, _member_descriptor):
                obj.slots[name] = value
                return
            if obj.idict is None:
                self.py_raise(AttributeError, "'%s' object has no attribute '%s'" % (obj.cls.__name__, name))
            if isinstance(obj.idict, SymDict):
                obj.idict.set(self, name, value)
            else:
                obj.idict[name] = value
            return
        if isinstance(obj, SExc):
            obj.extra[name] = value
            return
        if isinstance(obj, type) and self.eng.is_repo_class(obj):
            self.class_overlay[(obj, name)] = value
            return
        if isinstance(obj, types.ModuleType):
            self.module_overlay[(obj, name)] = value
            return
        if isinstance(obj, types.SimpleNamespace):
            setattr(obj, name, value)
            return
        self.unsupported("attribute store on %r" % (type(obj),))

    # ================================================================ calls
    def call_function(self, fn, args, kwargs):
        E = _engine_excs()
        self.nsteps += 1
        if isinstance(fn, SMethod):
            if fn.func is None:
                return self.call_sym_method(fn.recv, fn.name, args, kwargs)
            return self.call_function(fn.func, [fn.recv] + list(args), kwargs)
        if isinstance(fn, SClosure):
            return self.invoke_closure(fn, args, kwargs)
        if isinstance(fn, Fold):
            return fn.apply(self, args[0])
        if isinstance(fn, SAbstractClass):
            return fn.ctor(self, fn, args, kwargs)
        if isinstance(fn, SCallable):
            return call_scallable(self, fn, args, kwargs)
        if isinstance(fn, types.MethodType):
            return self.call_function(fn.__func__, [fn.__self__] + list(args), kwargs)
        if isinstance(fn, (staticmethod, classmethod)):
            return self.call_function(fn.__func__, args, kwargs)
        if isinstance(fn, types.FunctionType):
            model = self.FUNCTION_MODELS.get(getattr(fn, "__module__", "") + "." + fn.__qualname__)
            if model is not None:
                return model(self, args, kwargs)
            if self.eng.is_repo_function(fn):
                cs = self.eng.contracts.get(fn)
                if cs and fn is not self.cur_fn_under_proof():
                    return self.apply_contract(cs, fn, args, kwargs)
                return self.invoke_repo_function(fn, args, kwargs)
            return self.call_native(fn, args, kwargs)
        if isinstance(fn, type):
            return self.call_class(fn, args, kwargs)
        if isinstance(fn, (SObj,)):
            m = self.class_lookup(fn.cls, "__call__")
            if m is _MISSING:
                self.py_raise(TypeError, "object is not callable")
            return self.call_function(m, [fn] + list(args), kwargs)
        if isinstance(fn, Sym) or fn is None or isinstance(fn, (int, str, bytes, Opaque)):
            self.py_raise(TypeError, "'%s' object is not callable" % self.type_of(fn).__name__)
        return self.call_native(fn, args, kwargs)

    def cur_fn_under_proof(self):
        return self.cur_fn

    def invoke_repo_function(self, fn, args, kwargs, spec=None):
        E = _engine_excs()
        found = self.eng.src.node_for(fn)
        if found is None:
            self.unsupported("no source for %r" % (fn,))
        node, filename = found
        locs = self.bind_args(node.args, fn, args, kwargs)
        if fn.__closure__:
            for nm, cell in zip(fn.__code__.co_freevars, fn.__closure__):
                try:
                    locs.setdefault(nm, cell.cell_contents)
                except ValueError:
                    pass
        is_spec = self.eng.is_spec_function(fn) if spec is None else spec
        fr = Frame_(fn.__module__ + "." + fn.__qualname__, fn.__globals__, locs,
                    getattr(node, "_pyvc_class", None), is_spec, fn)
        self.depth += 1
        if self.depth > 60:
            self.depth -= 1
            self.unsupported("interpreter call depth > 60 (recursion needs a contract)")
        try:
            if isinstance(node, ast.Lambda):
                return self.eval(node.body, fr)
            self.exec_block(node.body, fr)
            return None
        except E._Return as r:
            return r.value
        except E.PyRaise as r:
            if not is_spec and hasattr(r.exc, "extra"):
                # provenance for spec.raised_in: the functions this exception propagated out of
                r.exc.extra.setdefault("via", set()).add(fn.__qualname__)
            raise
        finally:
            self.depth -= 1

    def invoke_closure(self, clo, args, kwargs):
        E = _engine_excs()
        node = clo.node
        locs = dict(clo.frame.locals)
        defaults = [self.eval(d, clo.frame) for d in node.args.defaults]
        kwdefaults = {a.arg: self.eval(d, clo.frame)
                      for a, d in zip(node.args.kwonlyargs, node.args.kw_defaults) if d is not None}
        locs.update(self.bind_args(node.args, None, args, kwargs, defaults, kwdefaults,
                                   getattr(node, "name", "<lambda>")))
        fr = Frame_(clo.frame.name + ".<closure>", clo.frame.globals, locs,
                    clo.frame.clsname, clo.frame.spec, None)
        self.depth += 1
        try:
            if isinstance(node, ast.Lambda):
                return self.eval(node.body, fr)
            self.exec_block(node.body, fr)
            return None
        except E._Return as r:
            return r.value
        finally:
            self.depth -= 1

    def lift(self, v, memo=None, depth=0):
        """a REAL instance of a repo class (e.g. an AVP object sitting in a default argument) as an
        interpreter object with the same fields; containers are lifted element-wise"""
        memo = {} if memo is None else memo
        if id(v) in memo:
            return memo[id(v)]
        if depth > 8:
            return v
        if isinstance(v, list):
            out = []
            memo[id(v)] = out
            out.extend(self.lift(x, memo, depth + 1) for x in v)
            return out
        if isinstance(v, tuple) and not hasattr(v, "_fields"):
            return tuple(self.lift(x, memo, depth + 1) for x in v)
        cls = type(v)
        import threading as _th, queue as _qu
        if isinstance(v, (_th.Event, _qu.Queue)) or cls is type(_th.Lock()):
            # a REAL synchronisation object reaching interpreted code (e.g. sitting in a default argument):
            # one model object per real object, so sharing stays visible
            from .extmodels import SSync
            memo2 = self.__dict__.setdefault("_sync_lifted", {})
            if id(v) not in memo2:
                if isinstance(v, _th.Event):
                    memo2[id(v)] = SSync("event", flag=v.is_set())
                elif isinstance(v, _qu.Queue):
                    memo2[id(v)] = SSync("queue", items=[self.lift(x) for x in list(v.queue)])
                else:
                    memo2[id(v)] = SSync("lock", held=v.locked())
            return memo2[id(v)]
        if isinstance(v, (Sym, SObj, SExc, type)) or not self.eng.is_repo_class(cls) \
                or isinstance(v, BaseException) or hasattr(v, "_fields"):
            return v
        if cls.__name__ in ("DiameterAvpLoader",) or cls.__module__.endswith("_internal_utils"):
            return v
        o = SObj(cls, has_dict=self.has_instance_dict(cls))
        memo[id(v)] = o
        for k in cls.__mro__:
            for sname in getattr(k, "__slots__", ()) if isinstance(getattr(k, "__slots__", ()), (tuple, list)) else ():
                try:
                    o.slots[sname] = self.lift(object.__getattribute__(v, sname), memo, depth + 1)
                except AttributeError:
                    pass
        if o.idict is not None:
            for kk, x in getattr(v, "__dict__", {}).items():
                o.idict[kk] = self.lift(x, memo, depth + 1)
        return o

    def bind_args(self, a, fn, args, kwargs, defaults=None, kwdefaults=None, fname=None):
        fname = fname or (fn.__name__ if fn is not None else "<fn>")
        if defaults is None:
            defaults = [self.lift(d) for d in (fn.__defaults__ or ())]
            kwdefaults = {k: self.lift(d) for k, d in (fn.__kwdefaults__ or {}).items()}
        pos = [p.arg for p in a.posonlyargs] + [p.arg for p in a.args]
        locs = {}
        args = list(args)
        kwargs = dict(kwargs)
        if len(args) > len(pos) and a.vararg is None:
            self.py_raise(TypeError, "%s() takes %d positional arguments but %d were given"
                          % (fname, len(pos), len(args)))
        for i, name in enumerate(pos):
            if i < len(args):
                if name in kwargs:
                    self.py_raise(TypeError, "%s() got multiple values for argument '%s'" % (fname, name))
                locs[name] = args[i]
            elif name in kwargs:
                locs[name] = kwargs.pop(name)
            else:
                di = i - (len(pos) - len(defaults))
                if di >= 0:
                    locs[name] = defaults[di]
                else:
                    self.py_raise(TypeError, "%s() missing 1 required positional argument: '%s'"
                                  % (fname, name))
        if a.vararg is not None:
            locs[a.vararg.arg] = tuple(args[len(pos):])
        for p in a.kwonlyargs:
            if p.arg in kwargs:
                locs[p.arg] = kwargs.pop(p.arg)
            elif p.arg in kwdefaults:
                locs[p.arg] = kwdefaults[p.arg]
            else:
                self.py_raise(TypeError, "%s() missing 1 required keyword-only argument: '%s'"
                              % (fname, p.arg))
        if a.kwarg is not None:
            locs[a.kwarg.arg] = kwargs
        elif kwargs:
            self.py_raise(TypeError, "%s() got an unexpected keyword argument '%s'"
                          % (fname, list(kwargs)[0]))
        return locs

    def call_class(self, cls, args, kwargs):
        model = self.CLASS_MODELS.get(cls)
        if model is not None:
            return model(self, args, kwargs)
        if isinstance(cls, type) and issubclass(cls, BaseException):
            e = SExc(cls, args)
            return e
        if self.eng.is_repo_class(cls):
            if issubclass(cls, tuple) and hasattr(cls, "_fields"):
                try:
                    return cls(*args, **kwargs)
                except TypeError as e:
                    self.py_raise(TypeError, *e.args)
            cs = self.eng.contracts.get(cls)
            if cs and self.cur_fn is not cls:
                return self.apply_contract(cs, cls, args, kwargs)
            return self.instantiate(cls, args, kwargs)
        return self.call_native(cls, args, kwargs)

    def instantiate(self, cls, args, kwargs):
        obj = SObj(cls, has_dict=self.has_instance_dict(cls))
        init = self.class_lookup(cls, "__init__")
        if init is not _MISSING and isinstance(init, types.FunctionType):
            self.call_function(init, [obj] + list(args), kwargs)
        elif args or kwargs:
            self.py_raise(TypeError, "%s() takes no arguments" % cls.__name__)
        return obj

    def deep_concrete(self, v, depth=0):
        if isinstance(v, (Sym, SObj, SExc, SMethod, SClosure, SExt, Opaque, SSync, SCallable)):
            return False
        if isinstance(v, (list, tuple, set, frozenset)) and depth < 4:
            return all(self.deep_concrete(x, depth + 1) for x in v)
        if isinstance(v, dict) and depth < 4:
            return all(self.deep_concrete(k, depth + 1) and self.deep_concrete(x, depth + 1)
                       for k, x in v.items())
        return True

    def call_native(self, fn, args, kwargs):
        """A non-repo callable: modelled builtin, or executed natively on concrete arguments."""
        model = self.NATIVE_MODELS.get(fn)
        if model is not None:
            return model(self, args, kwargs)
        recv = getattr(fn, "__self__", None)
        if (recv is not None and not isinstance(recv, types.ModuleType)
                and isinstance(recv, (str, bytes, int, bytearray))
                and not (all(self.deep_concrete(a) for a in args)
                         and all(self.deep_concrete(a) for a in kwargs.values()))):
            return self.call_sym_method(recv, fn.__name__, args, kwargs)
        if isinstance(recv, dict) and fn.__name__ in ("pop", "update", "get", "setdefault") and \
                (any(isinstance(k, Sym) for k in recv) or any(isinstance(a, Sym) for a in args)
                 or any(isinstance(a, dict) and any(isinstance(k, Sym) for k in a) for a in args)):
            return self.dict_sym_method(recv, fn.__name__, args, kwargs)
        if fn in self.CONTAINER_SAFE or (isinstance(recv, (list, dict)) and fn.__name__ in self.CONTAINER_SAFE_METHODS):
            try:
                return fn(*args, **kwargs)
            except Exception as e:       # noqa
                self.py_raise(type(e), *e.args)
        if all(self.deep_concrete(a) for a in args) and all(self.deep_concrete(a) for a in kwargs.values()):
            name = getattr(fn, "__module__", None) or ""
            self.eng.externals_used.add("%s.%s (executed natively on concrete arguments)"
                                        % (name, getattr(fn, "__qualname__", getattr(fn, "__name__", repr(fn)))))
            try:
                return fn(*args, **kwargs)
            except Exception as e:       # noqa
                self.py_raise(type(e), *e.args)
        self.unsupported("call of unmodelled external %r with symbolic arguments" % (fn,))

    # ================================================================ statements
    def exec_block(self, stmts, fr):
        for s in stmts:
            self.exec_stmt(s, fr)

    def is_dropped_call(self, call, fr):
        """logging / print / time.sleep expression statements are dropped (A-LOG)."""
        f = call.func
        if isinstance(f, ast.Name) and f.id == "print":
            return True
        if isinstance(f, ast.Attribute):
            base = f.value
            try:
                if isinstance(base, ast.Name):
                    if base.id in fr.locals:
                        b = fr.locals[base.id]
                    else:
                        b = fr.globals.get(base.id, _MISSING)
                elif isinstance(base, ast.Attribute) and isinstance(base.value, ast.Name) \
                        and base.value.id == "self" and "self" in fr.locals:
                    s = fr.locals["self"]
                    if isinstance(s, SObj):
                        b = s.idict.get(base.attr, _MISSING) if s.idict is not None else _MISSING
                    else:
                        b = getattr(s, base.attr, _MISSING)
                else:
                    return False
            except Exception:
                return False
            import logging
            import time as _time
            if b is logging or isinstance(b, logging.Logger) or \
                    (isinstance(b, logging.LoggerAdapter)):
                return True
            if b is _time and f.attr == "sleep":
                return True
            if type(b).__name__ in ("WorkerLogger", "BromeliaLogger", "_DropLogger"):
                return True
        return False

    def exec_stmt(self, s, fr):
        E = _engine_excs()
        self.nsteps += 1
        if self.nsteps > 400000:
            self.unsupported("step limit")
        t = type(s)
        if t is ast.Expr:
            if isinstance(s.value, ast.Constant):
                return
            if isinstance(s.value, ast.Call) and self.is_dropped_call(s.value, fr):
                # the call itself (logging / print / sleep) is dropped, but its ARGUMENTS are still
                # evaluated: an exception raised while formatting a log message is real behaviour.
                # Only argument expressions outside the modelled subset fall back to A-LOG.
                E2 = _engine_excs()
                for a in list(s.value.args) + [k.value for k in s.value.keywords]:
                    try:
                        self.eval(a.value if isinstance(a, ast.Starred) else a, fr)
                    except E2.Unsupported as u:
                        self.havoc_notes.add("logging argument not evaluated (A-LOG): %s" % str(u)[:80])
                return
            self.eval(s.value, fr)
        elif t is ast.Assign:
            v = self.eval(s.value, fr)
            for tgt in s.targets:
                self.assign(tgt, v, fr)
        elif t is ast.AugAssign:
            cur = self.eval(_load_of(s.target), fr)
            v = self.binop(type(s.op), cur, self.eval(s.value, fr), inplace=True)
            self.assign(s.target, v, fr)
        elif t is ast.AnnAssign:
            if s.value is not None:
                self.assign(s.target, self.eval(s.value, fr), fr)
        elif t is ast.Return:
            raise E._Return(self.eval(s.value, fr) if s.value is not None else None)
        elif t is ast.If:
            if self.truth(self.eval(s.test, fr)):
                self.exec_block(s.body, fr)
            else:
                self.exec_block(s.orelse, fr)
        elif t is ast.While:
            self.exec_while(s, fr)
        elif t is ast.For:
            self.exec_for(s, fr)
        elif t is ast.Break:
            raise E._Break()
        elif t is ast.Continue:
            raise E._Continue()
        elif t is ast.Pass:
            return
        elif t is ast.Raise:
            self.exec_raise(s, fr)
        elif t is ast.Try:
            self.exec_try(s, fr)
        elif t is ast.With:
            self.exec_with(s, fr)
        elif t is ast.Assert:
            if not self.truth(self.eval(s.test, fr)):
                msg = (self.eval(s.msg, fr),) if s.msg is not None else ()
                self.py_raise(AssertionError, *msg)
        elif t is ast.Delete:
            for tgt in s.targets:
                if isinstance(tgt, ast.Name):
                    fr.locals.pop(tgt.id, None)
                elif isinstance(tgt, ast.Subscript):
                    c = self.eval(tgt.value, fr)
                    k = self.eval(tgt.slice, fr)
                    if type(c).__name__ == "SVSeq":
                        from .interp import SymSlice as _SS
                        if not isinstance(k, (slice, _SS)) or (k.step not in (None, 1)):
                            self.unsupported("del of a single element of a symbolic list")
                        n = z3.Length(c.term)
                        lo, ln = self.slice_bounds(k, None, n)
                        hi = lo + z3.If(ln < 0, 0, ln)
                        c.term = z3.Concat(z3.Extract(c.term, z3.IntVal(0), lo), z3.Extract(c.term, hi, n - hi))
                        continue
                    if isinstance(c, (dict, list)) and not is_sym(k):
                        try:
                            del c[k]
                        except (KeyError, IndexError) as e:
                            self.py_raise(type(e), *e.args)
                    else:
                        self.unsupported("del on symbolic container")
                else:
                    self.unsupported("del target")
        elif t is ast.FunctionDef:
            fr.locals[s.name] = SClosure(s, fr)
        elif t in (ast.Import, ast.ImportFrom):
            self.exec_import(s, fr)
        elif t is ast.Global:
            fr.globals_declared = getattr(fr, "globals_declared", set()) | set(s.names)
        else:
            self.unsupported("statement %s" % t.__name__)

    def exec_import(self, s, fr):
        import importlib
        if isinstance(s, ast.Import):
            for a in s.names:
                m = importlib.import_module(a.name)
                fr.locals[a.asname or a.name.split(".")[0]] = m if a.asname else sys.modules[a.name.split(".")[0]]
        else:
            pkg = fr.globals.get("__package__")
            m = importlib.import_module("." * s.level + (s.module or ""), pkg) if s.level else \
                importlib.import_module(s.module)
            for a in s.names:
                fr.locals[a.asname or a.name] = getattr(m, a.name)

    def exec_raise(self, s, fr):
        E = _engine_excs()
        if s.exc is None:
            if fr.cur_exc is not None:
                raise E.PyRaise(fr.cur_exc)
            self.py_raise(RuntimeError, "No active exception to reraise")
        v = self.eval(s.exc, fr)
        if isinstance(v, type) and issubclass(v, BaseException):
            v = SExc(v, ())
        if not isinstance(v, SExc):
            self.py_raise(TypeError, "exceptions must derive from BaseException")
        raise E.PyRaise(v)

    def exc_matches(self, exc, typ):
        if isinstance(typ, tuple):
            return any(self.exc_matches(exc, t) for t in typ)
        return isinstance(typ, type) and issubclass(exc.cls, typ)

    def exec_try(self, s, fr):
        E = _engine_excs()
        try:
            try:
                self.exec_block(s.body, fr)
            except E.PyRaise as r:
                handled = False
                for h in s.handlers:
                    typ = self.eval(h.type, fr) if h.type is not None else BaseException
                    if self.exc_matches(r.exc, typ):
                        handled = True
                        saved = fr.cur_exc
                        fr.cur_exc = r.exc
                        if h.name:
                            fr.locals[h.name] = r.exc
                        try:
                            self.exec_block(h.body, fr)
                        finally:
                            fr.cur_exc = saved
                            if h.name:
                                fr.locals.pop(h.name, None)
                        break
                if not handled:
                    raise
            else:
                self.exec_block(s.orelse, fr)
        finally:
            if s.finalbody:
                # runs on normal and exceptional exit (PathEnd/Unsupported propagate unchanged)
                et = sys.exc_info()[0]
                if et is None or issubclass(et, (E.PyRaise, E._Return, E._Break, E._Continue)):
                    self.exec_block(s.finalbody, fr)

    def exec_with(self, s, fr):
        E = _engine_excs()
        if len(s.items) != 1:
            self.unsupported("with: multiple items")
        item = s.items[0]
        mgr = self.eval(item.context_expr, fr)
        if isinstance(mgr, SExt) and mgr.attrs.get("cm") == "noop":
            if item.optional_vars is not None:
                self.assign(item.optional_vars, mgr, fr)
            self.exec_block(s.body, fr)
            return
        enter = self.getattr_(mgr, "__enter__")
        exit_ = self.getattr_(mgr, "__exit__")
        v = self.call_function(enter, [], {})
        if item.optional_vars is not None:
            self.assign(item.optional_vars, v, fr)
        try:
            self.exec_block(s.body, fr)
        except E.PyRaise as r:
            sup = self.call_function(exit_, [r.exc.cls, r.exc, None], {})
            if not self.truth(sup):
                raise
            return
        except (E._Return, E._Break, E._Continue):
            self.call_function(exit_, [None, None, None], {})
            raise
        self.call_function(exit_, [None, None, None], {})

    def assign(self, tgt, v, fr):
        t = type(tgt)
        if t is ast.Name:
            if tgt.id in getattr(fr, "globals_declared", ()):
                mod = sys.modules.get(fr.globals.get("__name__"))
                self.module_overlay[(mod, tgt.id)] = v
                return
            fr.locals[tgt.id] = v
        elif t is ast.Attribute:
            obj = self.eval(tgt.value, fr)
            self.setattr_(obj, self.mangle(fr, tgt.attr), v)
        elif t is ast.Subscript:
            c = self.eval(tgt.value, fr)
            k = self.eval(tgt.slice, fr)
            self.setitem(c, k, v)
        elif t in (ast.Tuple, ast.List):
            items = self.iter_concrete(v)
            if len(items) != len(tgt.elts):
                self.py_raise(ValueError, "not enough values to unpack")
            for e, x in zip(tgt.elts, items):
                self.assign(e, x, fr)
        elif t is ast.Starred:
            self.unsupported("starred assignment")
        else:
            self.unsupported("assignment target %s" % t.__name__)

    # ---------------------------------------------------------------- loops
    def exec_while(self, s, fr):
        E = _engine_excs()
        ordinal = fr.loop_ordinal
        fr.loop_ordinal += 1
        spec = self.eng.loopspecs.get((fr.name, self.loop_key(s, fr)))
        if spec is not None:
            return self.exec_loop_with_invariant(s, fr, spec, kind="while")
        n = 0
        while True:
            if not self.truth(self.eval(s.test, fr)):
                self.exec_block(s.orelse, fr)
                return
            n += 1
            if n > self.eng.max_unroll:
                self.unsupported("while loop in %s needs an invariant (unrolled %d times)" % (fr.name, n))
            try:
                self.exec_block(s.body, fr)
            except E._Break:
                return
            except E._Continue:
                continue

    def loop_key(self, s, fr):
        """Loops are keyed by their ordinal among the loops of the enclosing function (source
        order), which is stable under edits that do not add/remove loops."""
        node = self.eng.src.node_for(fr.fn)[0] if fr.fn is not None else None
        if node is None:
            return -1
        loops = [n for n in ast.walk(node) if isinstance(n, (ast.While, ast.For))]
        loops.sort(key=lambda n: (n.lineno, n.col_offset))
        for i, n in enumerate(loops):
            if n is s:
                return i
        return -1

    def exec_for(self, s, fr):
        E = _engine_excs()
        spec = self.eng.loopspecs.get((fr.name, self.loop_key(s, fr)))
        it = self.eval(s.iter, fr)
        symbolic_iter = isinstance(it, (SSeq, SymDict, SymDictKeys)) or type(it).__name__ == "SEnumSeq"
        if spec is not None and (symbolic_iter or spec.any_order):
            return self.exec_loop_with_invariant(s, fr, spec, kind="for", iterable=it)
        if isinstance(it, SymDict):
            it = SymDictKeys(it)
        if isinstance(it, SymDictKeys):
            if it.d.rest or it.d.sym:
                self.unsupported("for over an instance dict with unknown entries in %s needs an invariant" % fr.name)
            it = list(it.d.known.keys())
        if isinstance(it, SSeq) or type(it).__name__ == "SEnumSeq":
            self.unsupported("for over a symbolic sequence in %s needs an invariant" % fr.name)
        items = self.iter_concrete(it)
        for x in items:
            self.assign(s.target, x, fr)
            try:
                self.exec_block(s.body, fr)
            except E._Break:
                return
            except E._Continue:
                continue
        self.exec_block(s.orelse, fr)

    def iter_concrete(self, it):
        """Elements of an iterable of concrete length."""
        if isinstance(it, (list, tuple)):
            return list(it)
        if isinstance(it, dict):
            return list(it.keys())
        if isinstance(it, (bytes, bytearray)):
            return list(it)
        if isinstance(it, str):
            return list(it)
        if isinstance(it, SBytes):
            f = self.fix_bytes(it)
            if f is None:
                self.unsupported("iteration over bytes of symbolic length")
            return [SInt(e, nbits=8) for e in f.elems]
        if isinstance(it, SStr):
            k = self.known_len(it)
            if k is None:
                self.unsupported("iteration over str of symbolic length")
            return [SStr(z3.SubString(it.term, i, 1)) for i in range(k)]
        if isinstance(it, SSeq):
            self.unsupported("iteration over a symbolic sequence needs an invariant")
        if isinstance(it, (range, set, frozenset)) or type(it).__name__ in (
                "dict_keys", "dict_values", "dict_items", "enumerate", "zip", "map", "filter",
                "reversed", "list_iterator", "tuple_iterator", "generator", "dict_keyiterator"):
            return list(it)
        if isinstance(it, SObj):
            m = self.class_lookup(it.cls, "__iter__")
            if m is _MISSING:
                gi = self.class_lookup(it.cls, "__getitem__")
                if gi is _MISSING:
                    self.py_raise(TypeError, "'%s' object is not iterable" % it.cls.__name__)
                self.unsupported("iteration via __getitem__")
            return self.iter_concrete(self.call_function(m, [it], {}))
        if it is None or isinstance(it, (int, Opaque, SInt, SBool)):
            self.py_raise(TypeError, "'%s' object is not iterable" % self.type_of(it).__name__)
        self.unsupported("iteration over %r" % (type(it),))

    # ================================================================ expressions
    def eval(self, e, fr):
        m = getattr(self, "ev_" + type(e).__name__, None)
        if m is None:
            self.unsupported("expression %s" % type(e).__name__)
        return m(e, fr)

    def ev_Constant(self, e, fr):
        return e.value

    def ev_Name(self, e, fr):
        n = e.id
        if n in fr.locals:
            return fr.locals[n]
        mod = sys.modules.get(fr.globals.get("__name__"))
        if mod is not None and (mod, n) in self.module_overlay:
            return self.module_overlay[(mod, n)]
        if n in fr.globals:
            return fr.globals[n]
        if hasattr(builtins, n):
            return getattr(builtins, n)
        node = self.eng.src.node_for(fr.fn)[0] if fr.fn is not None else None
        if node is not None and n in assigned_names_of(node):
            self.py_raise(UnboundLocalError,
                          "cannot access local variable '%s' where it is not associated with a value" % n)
        self.py_raise(NameError, "name '%s' is not defined" % n)

    def ev_Attribute(self, e, fr):
        obj = self.eval(e.value, fr)
        return self.getattr_(obj, self.mangle(fr, e.attr))

    def ev_Call(self, e, fr):
        # special forms
        if isinstance(e.func, ast.Name):
            nm = e.func.id
            if nm == "locals" and nm not in fr.locals and not e.args:
                return dict(fr.locals)
            if nm == "super" and not e.args and nm not in fr.locals:
                return self.make_super(fr)
        fn = self.eval(e.func, fr)
        args = []
        for a in e.args:
            if isinstance(a, ast.Starred):
                args.extend(self.iter_concrete(self.eval(a.value, fr)))
            else:
                args.append(self.eval(a, fr))
        kwargs = {}
        for k in e.keywords:
            v = self.eval(k.value, fr)
            if k.arg is None:
                if not isinstance(v, dict):
                    self.unsupported("** of non-dict")
                for kk, vv in v.items():
                    if not isinstance(kk, str):
                        self.unsupported("** with symbolic key")
                    kwargs[kk] = vv
            else:
                kwargs[k.arg] = v
        return self.call_function(fn, args, kwargs)

    def make_super(self, fr):
        self.unsupported("super()")

    def ev_BinOp(self, e, fr):
        return self.binop(type(e.op), self.eval(e.left, fr), self.eval(e.right, fr))

    def ev_UnaryOp(self, e, fr):
        v = self.eval(e.operand, fr)
        t = type(e.op)
        if t is ast.Not:
            if isinstance(v, SBool):
                return SBool(z3.Not(v.term))
            return not self.truth(v)
        if t is ast.USub:
            if isinstance(v, (SInt, SBool)):
                from .values import int_term
                return SInt(-int_term(v))
            return -v
        if t is ast.UAdd:
            return v
        if t is ast.Invert:
            if isinstance(v, (SInt, SBool)):
                from .values import int_term
                return SInt(-int_term(v) - 1)
            return ~v
        self.unsupported("unary op")

    def ev_BoolOp(self, e, fr):
        is_and = isinstance(e.op, ast.And)
        if fr.spec:
            # spec functions are total and pure: combine boolean operands without forking; an
            # operand that is CONCRETELY decisive short-circuits (so `x is None or f(x)` is safe)
            vals = []
            for sub in e.values:
                v = self.eval(sub, fr)
                vals.append(v)
                if isinstance(v, bool) and (v is (not is_and)):
                    return v
                if not isinstance(v, (bool, SBool)) and not is_sym(v):
                    tv = self.truth(v)
                    if tv is (not is_and):
                        return v
            if all(isinstance(v, (bool, SBool)) for v in vals):
                if any(isinstance(v, SBool) for v in vals):
                    from .values import bool_term
                    ts = [bool_term(v) for v in vals]
                    return SBool(z3.And(*ts) if is_and else z3.Or(*ts))
                return all(vals) if is_and else any(vals)
            last = None
            for v in vals:
                last = v
                tv = self.truth(v)
                if is_and and not tv:
                    return v
                if not is_and and tv:
                    return v
            return last
        last = None
        for sub in e.values:
            last = self.eval(sub, fr)
            tv = self.truth(last)
            if is_and and not tv:
                return last
            if not is_and and tv:
                return last
        return last

    def ev_Compare(self, e, fr):
        left = self.eval(e.left, fr)
        result = None
        for op, rhs in zip(e.ops, e.comparators):
            right = self.eval(rhs, fr)
            c = self.compare_op(type(op), left, right)
            if len(e.ops) == 1:
                return c
            if result is None:
                result = c
            else:
                result = self.bool_and(result, c)
            left = right
        return result

    def bool_and(self, a, b):
        from .values import bool_term
        if isinstance(a, bool) and isinstance(b, bool):
            return a and b
        if isinstance(a, (bool, SBool)) and isinstance(b, (bool, SBool)):
            return SBool(z3.And(bool_term(a), bool_term(b)))
        return b if self.truth(a) else a

    def ev_IfExp(self, e, fr):
        if self.truth(self.eval(e.test, fr)):
            return self.eval(e.body, fr)
        return self.eval(e.orelse, fr)

    def ev_Tuple(self, e, fr):
        out = []
        for x in e.elts:
            if isinstance(x, ast.Starred):
                out.extend(self.iter_concrete(self.eval(x.value, fr)))
            else:
                out.append(self.eval(x, fr))
        return tuple(out)

    def ev_List(self, e, fr):
        return list(self.ev_Tuple(e, fr))

    def ev_Set(self, e, fr):
        vals = self.ev_Tuple(e, fr)
        if not all(self.deep_concrete(v) for v in vals):
            self.unsupported("set of symbolic values")
        return set(vals)

    def ev_Dict(self, e, fr):
        d = {}
        for k, v in zip(e.keys, e.values):
            if k is None:
                sub = self.eval(v, fr)
                if not isinstance(sub, dict):
                    self.unsupported("dict ** of non-dict")
                d.update(sub)
            else:
                kk = self.eval(k, fr)
                # a symbolic key is stored as its wrapper object (identity-hashed); lookups go
                # through ModelsMixin.dict_get, which compares keys with the interpreter's ==
                d[kk] = self.eval(v, fr)
        return d

    def ev_Subscript(self, e, fr):
        c = self.eval(e.value, fr)
        k = self.eval(e.slice, fr)
        return self.getitem(c, k)

    def ev_Slice(self, e, fr):
        lo = self.eval(e.lower, fr) if e.lower is not None else None
        hi = self.eval(e.upper, fr) if e.upper is not None else None
        st = self.eval(e.step, fr) if e.step is not None else None
        if is_sym(lo) or is_sym(hi) or is_sym(st):
            return SymSlice(lo, hi, st)
        return slice(lo, hi, st)

    def ev_Lambda(self, e, fr):
        return SClosure(e, fr)

    def ev_JoinedStr(self, e, fr):
        parts = []
        for v in e.values:
            if isinstance(v, ast.Constant):
                parts.append(v.value)
            else:
                val = self.eval(v.value, fr)
                spec = self.eval(v.format_spec, fr) if v.format_spec is not None else ""
                parts.append(self.format_value(val, v.conversion, spec))
        return self.str_concat(parts)

    def ev_FormattedValue(self, e, fr):
        val = self.eval(e.value, fr)
        spec = self.eval(e.format_spec, fr) if e.format_spec is not None else ""
        return self.format_value(val, e.conversion, spec)

    def _comp(self, e, fr, emit):
        def rec(gi, locs):
            if gi == len(e.generators):
                emit(locs)
                return
            g = e.generators[gi]
            f2 = Frame_(fr.name, fr.globals, locs, fr.clsname, fr.spec, fr.fn)
            it = self.eval(g.iter, f2)
            for x in self.iter_concrete(it):
                l2 = dict(locs)
                f3 = Frame_(fr.name, fr.globals, l2, fr.clsname, fr.spec, fr.fn)
                self.assign(g.target, x, f3)
                if all(self.truth(self.eval(c, f3)) for c in g.ifs):
                    rec(gi + 1, l2)
        rec(0, dict(fr.locals))

    def ev_ListComp(self, e, fr):
        if len(e.generators) == 1 and not e.generators[0].ifs:
            f2 = Frame_(fr.name, fr.globals, dict(fr.locals), fr.clsname, fr.spec, fr.fn)
            it = self.eval(e.generators[0].iter, f2)
            if isinstance(it, SSeq):
                tgt = e.generators[0].target
                src = ast.dump(e.elt) + "|" + ast.dump(tgt)
                return SMapSeq(it, src, ast.unparse(e.elt))
        out = []
        self._comp(e, fr, lambda locs: out.append(
            self.eval(e.elt, Frame_(fr.name, fr.globals, locs, fr.clsname, fr.spec, fr.fn))))
        return out

    ev_GeneratorExp = ev_ListComp

    def ev_SetComp(self, e, fr):
        vals = self.ev_ListComp(e, fr)
        if not all(self.deep_concrete(v) for v in vals):
            self.unsupported("set comprehension of symbolic values")
        return set(vals)

    def ev_DictComp(self, e, fr):
        out = {}

        def emit(locs):
            f = Frame_(fr.name, fr.globals, locs, fr.clsname, fr.spec, fr.fn)
            k = self.eval(e.key, f)
            if is_sym(k):
                self.unsupported("dict comprehension with symbolic key")
            out[k] = self.eval(e.value, f)
        self._comp(e, fr, emit)
        return out

    def ev_Starred(self, e, fr):
        self.unsupported("starred expression")

    def ev_NamedExpr(self, e, fr):
        v = self.eval(e.value, fr)
        self.assign(e.target, v, fr)
        return v


class SymDictKeys(object):
    """keys() / iteration view of a SymDict"""

    def __init__(self, d):
        self.d = d


class SymSlice(object):
    def __init__(self, lo, hi, st):
        self.start, self.stop, self.step = lo, hi, st


def Frame_(name, globs, locs, clsname, spec, fn):
    from .engine import Frame
    return Frame(name, globs, locs, clsname, spec, fn)


def _load_of(target):
    import copy
    t = copy.copy(target)
    t.ctx = ast.Load()
    return t


_assigned_cache = {}


def assigned_names_of(node):
    k = id(node)
    if k not in _assigned_cache:
        from .source import assigned_names
        names = assigned_names(node.body) if not isinstance(node, ast.Lambda) else set()
        _assigned_cache[k] = names
    return _assigned_cache[k]
