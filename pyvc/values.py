"""pyvc.values -- symbolic value representations used by the interpreter.

Concrete Python values (int, bool, bytes, str, None, tuples, classes, functions, modules,
raw list/dict containers holding interpreter values) are represented by themselves.
Anything that depends on a symbolic input is one of the wrapper classes below.
"""
import z3

BV8 = z3.IntSort()      # bytes are sequences of mathematical ints in 0..255 (range facts are
                        # added where elements are created or extracted); no bit-vector theory
BSEQ = z3.SeqSort(BV8)
STR = z3.StringSort()
REF = z3.DeclareSort("Ref")
RSEQ = z3.SeqSort(REF)


class Sym(object):
    __slots__ = ()


class SInt(Sym):
    """A mathematical integer (Python ints are unbounded, so this is exact).
    `nbits`: when not None, the value is known to lie in [0, 2**nbits)."""
    __slots__ = ("term", "nbits")

    def __init__(self, term, nbits=None):
        self.term = term
        self.nbits = nbits

    def __repr__(self):
        return "SInt(%s)" % (self.term,)


class SBool(Sym):
    __slots__ = ("term",)

    def __init__(self, term):
        self.term = term

    def __repr__(self):
        return "SBool(%s)" % (self.term,)


class SBytes(Sym):
    """bytes.  Either a general Seq(BV8) term, or a list of BV8 terms when the
    length is known concretely (`elems`).  `asint`: an Int term n such that these
    bytes are the big-endian encoding of n in len(elems) bytes (0 <= n < 256**k known)."""
    __slots__ = ("_term", "elems", "asint")

    def __init__(self, term=None, elems=None, asint=None):
        self._term = term
        self.elems = elems
        self.asint = asint

    @property
    def klen(self):
        return None if self.elems is None else len(self.elems)

    @property
    def term(self):
        if self._term is None:
            self._term = seq_of_elems(self.elems)
        return self._term

    def __repr__(self):
        return "SBytes(%s)" % (self.term,)


class SStr(Sym):
    __slots__ = ("term",)

    def __init__(self, term):
        self.term = term

    def __repr__(self):
        return "SStr(%s)" % (self.term,)


class SSeq(Sym):
    """A list of objects of symbolic length: Seq(Ref).  `elem` describes how an element
    reference is materialised as an object (an ElemKind).

    `term` is the z3 value of the list NOW.  When the structure of the list names a MUTABLE member
    object (SObj.mutable_elem: a concrete object the contract placed in the list and the code under
    proof may still assign to, e.g. the Session-Id AVP of an answer), the term is rebuilt from the
    structure on every read: a member that was assigned to since has been given a fresh reference
    whose field functions equal its new field values, so every fold / equation over the list sees the
    new content, while terms read earlier keep denoting the old content."""
    __slots__ = ("_term", "elem", "struct")

    def __init__(self, term, elem, struct=None):
        self._term = term
        self.elem = elem
        self.struct = struct or ("var",)

    @property
    def term(self):
        if _struct_dynamic(self.struct, 0):
            return _struct_term(self, 0)
        return self._term

    @term.setter
    def term(self, t):
        self._term = t

    def __repr__(self):
        return "SSeq(%s)" % (self.term,)


CURRENT_CTX = [None]          # the path context (needed to re-adopt a mutated member object)


def _struct_dynamic(st, depth):
    k = st[0]
    if depth > 200:
        # never decide "static" by giving up: a stale term would be unsound
        raise RuntimeError("structure of a symbolic sequence nested deeper than 200")
    if k == "snoc":
        return getattr(st[2], "mutable_elem", False) or _struct_dynamic(st[1].struct, depth + 1)
    if k == "concat":
        return _struct_dynamic(st[1].struct, depth + 1) or _struct_dynamic(st[2].struct, depth + 1)
    if k == "alias":
        return _struct_dynamic(st[1].struct, depth + 1)
    return False


def _struct_term(sq, depth):
    import z3
    st = sq.struct
    k = st[0]
    if not _struct_dynamic(st, depth):
        return sq._term
    if k == "snoc":
        base, xo = st[1], st[2]
        r = xo.ref
        if r is None:
            r = sq.elem.adopt(CURRENT_CTX[0], xo)
        bt = _struct_term(base, depth + 1)
        if base.struct[0] == "empty":
            return z3.Unit(r)
        return z3.Concat(bt, z3.Unit(r))
    if k == "concat":
        return z3.Concat(_struct_term(st[1], depth + 1), _struct_term(st[2], depth + 1))
    if k == "alias":
        return _struct_term(st[1], depth + 1)
    return sq._term


class SObj(object):
    """An instance of a (real) class.  `slots` holds __slots__ members, `idict` the
    instance dictionary (a raw dict) when the class has one.  `ref` is the z3 Ref constant
    naming the object when it is (or became) an element of a symbolic sequence."""
    _count = [0]

    def __init__(self, cls, has_dict=True):
        self.cls = cls
        self.slots = {}
        self.idict = {} if has_dict else None
        self.ref = None
        self.frozen = False
        self.mutable_elem = False    # placed in a symbolic sequence but still assignable (see SSeq.term)
        self.elem_kind = None
        SObj._count[0] += 1
        self.oid = SObj._count[0]

    def __repr__(self):
        return "<SObj %s #%d>" % (self.cls.__name__, self.oid)


class SExc(object):
    """An exception instance (class + args)."""

    def __init__(self, cls, args=()):
        self.cls = cls
        self.args = tuple(args)
        self.extra = {}

    def __repr__(self):
        return "<SExc %s%r>" % (self.cls.__name__, self.args)


class SMethod(object):
    """Bound method: receiver + function (repo function, or name of a modelled builtin)."""

    def __init__(self, recv, func, name=None):
        self.recv = recv
        self.func = func
        self.name = name

    def __repr__(self):
        return "<SMethod %r.%s>" % (self.recv, self.name or getattr(self.func, "__name__", "?"))


class SClosure(object):
    """A lambda / nested def created by interpreted code."""

    def __init__(self, node, frame):
        self.node = node
        self.frame = frame


class Opaque(object):
    """An arbitrary object that is an instance of no modelled type."""

    def __init__(self, tag="opaque"):
        self.tag = tag

    def __repr__(self):
        return "<Opaque %s>" % self.tag


# ------------------------------------------------------------------ term helpers
def seq_of_elems(elems):
    if not elems:
        return z3.Empty(BSEQ)
    units = [z3.Unit(e) for e in elems]
    if len(units) == 1:
        return units[0]
    return z3.Concat(*units)


def bytes_term(v):
    if isinstance(v, SBytes):
        return v.term
    if isinstance(v, (bytes, bytearray)):
        return seq_of_elems([z3.IntVal(b) for b in v])
    raise TypeError("not bytes: %r" % (v,))


def bytes_elems(v):
    """list of BV8 terms if the length is known concretely, else None"""
    if isinstance(v, (bytes, bytearray)):
        return [z3.IntVal(b) for b in v]
    if isinstance(v, SBytes):
        return v.elems
    return None


def str_term(v):
    if isinstance(v, SStr):
        return v.term
    if isinstance(v, str):
        return z3.StringVal(v)
    raise TypeError("not str: %r" % (v,))


def int_term(v):
    if isinstance(v, SInt):
        return v.term
    if isinstance(v, SBool):
        return z3.If(v.term, z3.IntVal(1), z3.IntVal(0))
    if isinstance(v, bool):
        return z3.IntVal(int(v))
    if isinstance(v, int):
        return z3.IntVal(v)
    raise TypeError("not int: %r" % (v,))


def bool_term(v):
    if isinstance(v, SBool):
        return v.term
    if isinstance(v, bool):
        return z3.BoolVal(v)
    raise TypeError("not bool: %r" % (v,))


def is_sym(v):
    return isinstance(v, Sym)


def is_intlike(v):
    return isinstance(v, (int, SInt, SBool)) and not isinstance(v, float)


def is_byteslike(v):
    return isinstance(v, (bytes, bytearray, SBytes))


def is_strlike(v):
    return isinstance(v, (str, SStr))
