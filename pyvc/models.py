"""pyvc.models -- operators and models of CPython built-ins (the L0 layer).

Every model follows CPython 3.12 semantics for the operations listed in DESIGN.md 2.4/2.6,
including the exception class and (where the code under proof inspects it) the message.
They are differential-tested against CPython by `pyvc.conformance`.
"""
import ast
import struct as _struct

import z3

from .values import (SInt, SBool, SBytes, SStr, SSeq, SObj, SExc, SMethod, SClosure, Sym,
                     Opaque, BV8, BSEQ, STR, REF, RSEQ, bytes_term, bytes_elems, str_term,
                     int_term, bool_term, is_sym, is_intlike, is_byteslike, is_strlike,
                     seq_of_elems)

_MISSING = object()

# uninterpreted codecs (assumed contracts, see trusted base): utf-8 encode/decode
UTF8_ENC = z3.Function("utf8_enc", STR, BSEQ)
UTF8_DEC = z3.Function("utf8_dec", BSEQ, STR)
UTF8_OK = z3.Function("utf8_ok", BSEQ, z3.BoolSort())
HEX_OF = z3.Function("hex_of", BSEQ, STR)
FROMHEX = z3.Function("fromhex", STR, BSEQ)


def digits_value(elems):
    """sum of e_i * 256**(k-1-i): the big-endian value of a list of byte terms"""
    k = len(elems)
    terms = []
    for i, e in enumerate(elems):
        w = 1 << (8 * (k - 1 - i))
        b = e
        terms.append(b if w == 1 else b * z3.IntVal(w))
    return terms[0] if len(terms) == 1 else z3.Sum(terms)


def native_key(fn):
    mod = getattr(fn, "__module__", None)
    qn = getattr(fn, "__qualname__", None) or getattr(fn, "__name__", None)
    if qn is None:
        return None
    return (mod + "." + qn) if mod else qn


def _pow2(n):
    return 1 << n


class ModelsMixin(object):
    CONTAINER_METHODS = {"remove", "index", "count", "__contains__"}
    CONTAINER_SAFE_METHODS = {"append", "extend", "insert", "clear", "copy", "keys", "values", "items",
                              "update", "reverse", "popitem", "__len__", "__iter__"}
    CONTAINER_SAFE = set()

    # ================================================================ arithmetic
    def binop(self, op, a, b, inplace=False):
        from .extmodels import SExt, ext_binop
        if isinstance(a, SExt) or isinstance(b, SExt):
            return ext_binop(self, op, a, b)
        if isinstance(a, SObj) or isinstance(b, SObj):
            return self.binop_obj(op, a, b)
        if not is_sym(a) and not is_sym(b):
            if inplace and isinstance(a, list) and op is ast.Add:
                a.extend(self.iter_concrete(b))
                return a
            try:
                return self.py_binop(op, a, b)
            except Exception as e:  # noqa
                self.py_raise(type(e), *e.args)
        if is_intlike(a) and is_intlike(b):
            return self.int_binop(op, a, b)
        if op is ast.Add:
            if is_byteslike(a) and is_byteslike(b):
                return self.bytes_concat([a, b])
            if is_strlike(a) and is_strlike(b):
                return self.str_concat([a, b])
            if type(a).__name__ == "SVSeq" or type(b).__name__ == "SVSeq":
                from .seqs import SVSeq
                ta = a.term if isinstance(a, SVSeq) else self._vseq_of_list(a)
                tb = b.term if isinstance(b, SVSeq) else self._vseq_of_list(b)
                if ta is None or tb is None:
                    self.unsupported("concatenation with a symbolic list of values")
                return SVSeq(z3.Concat(ta, tb))
            if isinstance(a, SSeq) and isinstance(b, (list, SSeq)):
                return self.sseq_concat(a, b)
            if isinstance(a, list) and isinstance(b, SSeq):
                return self.sseq_concat(a, b)
            self.py_raise(TypeError, "unsupported operand type(s) for +: '%s' and '%s'"
                          % (self.type_of(a).__name__, self.type_of(b).__name__))
        if op is ast.Mult and (is_strlike(a) or is_byteslike(a)) and is_intlike(b):
            n = self.concretize_int(b, 16, "repeat count")
            parts = [a] * max(n, 0)
            if is_strlike(a):
                return self.str_concat(parts) if parts else ""
            return self.bytes_concat(parts) if parts else b""
        if op is ast.Mod and is_strlike(a):
            self.unsupported("%-formatting with symbolic operands")
        self.py_raise(TypeError, "unsupported operand type(s) for %s: '%s' and '%s'"
                      % (op.__name__, self.type_of(a).__name__, self.type_of(b).__name__))

    def py_binop(self, op, a, b):
        import operator
        table = {ast.Add: operator.add, ast.Sub: operator.sub, ast.Mult: operator.mul,
                 ast.FloorDiv: operator.floordiv, ast.Mod: operator.mod, ast.Pow: operator.pow,
                 ast.BitAnd: operator.and_, ast.BitOr: operator.or_, ast.BitXor: operator.xor,
                 ast.LShift: operator.lshift, ast.RShift: operator.rshift, ast.Div: operator.truediv,
                 ast.MatMult: operator.matmul}
        return table[op](a, b)

    def binop_obj(self, op, a, b):
        names = {ast.Add: ("__add__", "__radd__"), ast.Sub: ("__sub__", "__rsub__"),
                 ast.Mult: ("__mul__", "__rmul__")}
        if op not in names:
            self.unsupported("operator on objects")
        fwd, rev = names[op]
        if isinstance(a, SObj):
            m = self.class_lookup(a.cls, fwd)
            if m is not _MISSING:
                return self.call_function(m, [a, b], {})
        if isinstance(b, SObj):
            m = self.class_lookup(b.cls, rev)
            if m is not _MISSING:
                return self.call_function(m, [b, a], {})
        self.py_raise(TypeError, "unsupported operand type(s)")

    def int_binop(self, op, a, b):
        ta, tb = int_term(a), int_term(b)
        if op is ast.Add:
            return SInt(ta + tb)
        if op is ast.Sub:
            return SInt(ta - tb)
        if op is ast.Mult:
            return SInt(ta * tb)
        if op in (ast.FloorDiv, ast.Mod):
            if isinstance(b, int) and not isinstance(b, bool) or (isinstance(b, bool)):
                bv = int(b)
                if bv == 0:
                    self.py_raise(ZeroDivisionError, "integer division or modulo by zero"
                                  if op is ast.FloorDiv else "integer modulo by zero")
                if bv > 0:
                    return SInt(ta / tb) if op is ast.FloorDiv else SInt(ta % tb)
                q = (-ta) / z3.IntVal(-bv)
                return SInt(q) if op is ast.FloorDiv else SInt(ta - tb * q)
            if self.branch(tb == 0):
                self.py_raise(ZeroDivisionError, "integer division or modulo by zero")
            if self.branch(tb > 0):
                return SInt(ta / tb) if op is ast.FloorDiv else SInt(ta % tb)
            q = (-ta) / (-tb)
            return SInt(q) if op is ast.FloorDiv else SInt(ta - tb * q)
        if op is ast.Pow:
            e = self.concretize_int(b, 70, "exponent")
            if e < 0:
                self.unsupported("negative exponent")
            if is_sym(a):
                r = z3.IntVal(1)
                for _ in range(e):
                    r = r * ta
                return SInt(r)
            return a ** e
        if op in (ast.BitAnd, ast.BitOr, ast.BitXor):
            return self.int_bitop(op, a, b)
        if op is ast.LShift:
            k = self.concretize_int(b, 70, "shift")
            if k < 0:
                self.py_raise(ValueError, "negative shift count")
            return SInt(ta * z3.IntVal(_pow2(k)))
        if op is ast.RShift:
            k = self.concretize_int(b, 70, "shift")
            if k < 0:
                self.py_raise(ValueError, "negative shift count")
            return SInt(ta / z3.IntVal(_pow2(k)))
        if op is ast.Div:
            self.unsupported("true division on symbolic ints")
        self.unsupported("int operator %s" % op.__name__)

    def int_bitop(self, op, a, b):
        """& | ^ on mathematical ints: modelled when one operand is a non-negative constant
        (bit extraction by div/mod is exact for every integer, two's complement included)."""
        if isinstance(b, (int, bool)) and not is_sym(b):
            x, c, xs = int_term(a), int(b), a
        elif isinstance(a, (int, bool)) and not is_sym(a):
            x, c, xs = int_term(b), int(a), b
        else:
            # two symbolic operands of known width: bit by bit
            na = a.nbits if isinstance(a, SInt) else (1 if isinstance(a, SBool) else None)
            nb = b.nbits if isinstance(b, SInt) else (1 if isinstance(b, SBool) else None)
            if na is None or nb is None or max(na, nb) > 16:
                self.unsupported("bitwise operator on two symbolic ints of unknown width")
            ta, tb = int_term(a), int_term(b)
            tot = z3.IntVal(0)
            for i in range(max(na, nb)):
                ba = (ta / z3.IntVal(_pow2(i))) % 2
                bb = (tb / z3.IntVal(_pow2(i))) % 2
                if op is ast.BitAnd:
                    bit = ba * bb
                elif op is ast.BitOr:
                    bit = ba + bb - ba * bb
                else:
                    bit = ba + bb - 2 * ba * bb
                tot = tot + bit * z3.IntVal(_pow2(i))
            return SInt(tot, nbits=max(na, nb))
        if c < 0:
            self.unsupported("bitwise operator with negative constant")
        andv = z3.IntVal(0)
        for i in range(c.bit_length()):
            if (c >> i) & 1:
                andv = andv + ((x / z3.IntVal(_pow2(i))) % 2) * z3.IntVal(_pow2(i))
        nb = xs.nbits if isinstance(xs, SInt) else (1 if isinstance(xs, SBool) else None)
        if op is ast.BitAnd:
            return SInt(andv, nbits=max(c.bit_length(), 1))
        wid = None if nb is None else max(nb, c.bit_length())
        if op is ast.BitOr:
            return SInt(x + z3.IntVal(c) - andv, nbits=wid)
        return SInt(x + z3.IntVal(c) - 2 * andv, nbits=wid)

    # ================================================================ sequences
    def bytes_concat(self, parts):
        parts = [p for p in parts if not (isinstance(p, (bytes, bytearray)) and len(p) == 0)]
        if not parts:
            return b""
        if len(parts) == 1:
            return parts[0]
        if all(not is_sym(p) for p in parts):
            return b"".join(bytes(p) for p in parts)
        el = [bytes_elems(p) for p in parts]
        if all(e is not None for e in el):
            out = []
            for e in el:
                out.extend(e)
            return SBytes(elems=out)
        terms = []
        for p in parts:
            if isinstance(p, SBytes) and p.elems is not None and len(p.elems) == 0:
                continue
            terms.append(bytes_term(p))
        return SBytes(term=z3.Concat(*terms) if len(terms) > 1 else terms[0])

    def str_concat(self, parts):
        parts = [p for p in parts if not (isinstance(p, str) and p == "")]
        if not parts:
            return ""
        # merge adjacent concrete pieces
        merged = []
        for p in parts:
            if isinstance(p, str) and merged and isinstance(merged[-1], str):
                merged[-1] += p
            else:
                merged.append(p)
        if len(merged) == 1:
            return merged[0]
        return SStr(z3.Concat(*[str_term(p) for p in merged]))

    def sseq_concat(self, a, b):
        from .seqs import to_sseq
        elem = a.elem if isinstance(a, SSeq) else b.elem
        a2, b2 = to_sseq(self, a, elem), to_sseq(self, b, elem)
        if a2.struct[0] == "empty":
            return SSeq(b2.term, elem, b2.struct)
        if b2.struct[0] == "empty":
            return SSeq(a2.term, elem, a2.struct)
        return SSeq(z3.Concat(a2.term, b2.term), elem, ("concat", a2, b2))

    def length_of(self, v):
        if isinstance(v, SBytes):
            if v.elems is not None:
                return len(v.elems)
            ln = z3.simplify(z3.Length(v.term))
            return ln.as_long() if z3.is_int_value(ln) else SInt(ln)
        if isinstance(v, SStr):
            ln = z3.simplify(z3.Length(v.term))
            return ln.as_long() if z3.is_int_value(ln) else SInt(ln)
        if isinstance(v, SSeq) or type(v).__name__ == "SVSeq":
            return SInt(z3.Length(v.term))
        if isinstance(v, SObj):
            m = self.class_lookup(v.cls, "__len__")
            if m is _MISSING:
                self.py_raise(TypeError, "object of type '%s' has no len()" % v.cls.__name__)
            return self.call_function(m, [v], {})
        if v is None or isinstance(v, (int, float, SInt, SBool, Opaque)):
            self.py_raise(TypeError, "object of type '%s' has no len()" % self.type_of(v).__name__)
        try:
            return len(v)
        except TypeError as e:
            self.py_raise(TypeError, *e.args)

    def norm_index(self, idx, n_term, n_conc):
        """python index normalisation; returns (term or int) in range or raises IndexError"""
        if not is_sym(idx):
            if not isinstance(idx, int):
                self.py_raise(TypeError, "indices must be integers")
            if n_conc is not None:
                if idx < -n_conc or idx >= n_conc:
                    self.py_raise(IndexError, "index out of range")
                return idx % n_conc if n_conc else idx
            if idx >= 0:
                if not self.branch(z3.IntVal(idx) < n_term):
                    self.py_raise(IndexError, "index out of range")
                return idx
            if not self.branch(z3.IntVal(-idx) <= n_term):
                self.py_raise(IndexError, "index out of range")
            return n_term + idx
        t = int_term(idx)
        nt = n_term if n_term is not None else z3.IntVal(n_conc)
        if self.branch(z3.And(t >= 0, t < nt)):
            return t
        if self.branch(z3.And(t < 0, t >= -nt)):
            return t + nt
        self.py_raise(IndexError, "index out of range")

    def slice_bounds(self, sl, n_conc, n_term):
        """Python slice semantics with step 1 -> (start, length) usable with z3 Extract.
        Only non-negative symbolic bounds are modelled."""
        lo, hi, st = sl.start, sl.stop, sl.step
        if st is not None and st != 1:
            self.unsupported("extended slice with symbolic data")
        nt = n_term if n_term is not None else z3.IntVal(n_conc)

        def norm(v, default):
            if v is None:
                return default
            if not is_sym(v):
                if not isinstance(v, int):
                    self.py_raise(TypeError, "slice indices must be integers or None")
                if v >= 0:
                    return z3.IntVal(v)
                return z3.If(nt + v < 0, z3.IntVal(0), nt + v)
            t = int_term(v)
            if self.entails(t >= 0):
                return t
            return z3.If(t >= 0, t, z3.If(nt + t < 0, z3.IntVal(0), nt + t))
        lo_t = norm(lo, z3.IntVal(0))
        hi_t = norm(hi, nt)
        return lo_t, z3.simplify(hi_t - lo_t)

    def getitem(self, c, k):
        from .interp import SymSlice
        from .seqs import SymDict
        from .extmodels import SSplit
        if isinstance(c, SSplit):
            if k != 0:
                self.unsupported("element %r of a split of symbolic text" % (k,))
            t, sep = str_term(c.s), z3.StringVal(c.sep)
            idx = z3.IndexOf(t, sep, 0)
            return SStr(z3.If(idx < 0, t, z3.SubString(t, 0, idx)))
        if isinstance(c, SymDict):
            return c.get(self, k, _MISSING)
        if isinstance(c, SObj):
            m = self.class_lookup(c.cls, "__getitem__")
            if m is _MISSING:
                self.py_raise(TypeError, "'%s' object is not subscriptable" % c.cls.__name__)
            return self.call_function(m, [c, k], {})
        if isinstance(c, (list, tuple)):
            if isinstance(k, SymSlice) or is_sym(k):
                if isinstance(k, SymSlice):
                    self.unsupported("symbolic slice of a list")
                i = self.concretize_int(k, 70, "list index")
                k = i
            try:
                return c[k]
            except (IndexError, TypeError) as e:
                self.py_raise(type(e), *e.args)
        if isinstance(c, dict):
            return self.dict_get(c, k, _MISSING)
        if is_byteslike(c):
            return self.bytes_getitem(c, k)
        if is_strlike(c):
            return self.str_getitem(c, k)
        if isinstance(c, SSeq):
            return self.sseq_getitem(c, k)
        if c is None or isinstance(c, (int, SInt, SBool, Opaque)):
            self.py_raise(TypeError, "'%s' object is not subscriptable" % self.type_of(c).__name__)
        if not is_sym(k):
            try:
                return c[k]
            except Exception as e:  # noqa
                self.py_raise(type(e), *e.args)
        self.unsupported("subscript of %r" % type(c))

    def bytes_getitem(self, c, k):
        from .interp import SymSlice
        if isinstance(k, (slice, SymSlice)):
            if not is_sym(c) and isinstance(k, slice):
                return bytes(c[k])
            el = bytes_elems(c)
            if el is not None and isinstance(k, slice):
                sub = el[k]
                if not is_sym(c):
                    return bytes(c[k])
                return SBytes(elems=sub) if sub else b""
            if el is not None and k.step in (None, 1):
                # symbolic bounds over known elements: go through the term
                pass
            term = bytes_term(c)
            n_conc = len(el) if el is not None else None
            start, ln = self.slice_bounds(k, n_conc, z3.Length(term) if n_conc is None else None)
            r = SBytes(term=z3.simplify(z3.Extract(term, start, ln)))
            return r
        if isinstance(k, (SBool,)) or isinstance(k, bool):
            k = int_term(k) if is_sym(k) else int(k)
        if not is_intlike(k):
            self.py_raise(TypeError, "byte indices must be integers or slices, not %s"
                          % self.type_of(k).__name__)
        if not is_sym(c) and not is_sym(k):
            try:
                return c[k]
            except IndexError:
                self.py_raise(IndexError, "index out of range")
        el = bytes_elems(c)
        if el is not None:
            if not is_sym(k):
                i = self.norm_index(k, None, len(el))
                e = el[i]
                return SInt(e, nbits=8)
            i = self.norm_index(k, None, len(el))
            ii = self.concretize_int(SInt(i) if not isinstance(i, int) else i, 70, "byte index")
            e = el[ii]
            return SInt(e, nbits=8)
        term = bytes_term(c)
        i = self.norm_index(k, z3.Length(term), None)
        it = i if not isinstance(i, int) else z3.IntVal(i)
        e = z3.simplify(term[it])
        self.assume_raw(z3.And(e >= 0, e <= 255))
        return SInt(e, nbits=8)

    def str_getitem(self, c, k):
        from .interp import SymSlice
        if isinstance(k, (slice, SymSlice)):
            if not is_sym(c) and isinstance(k, slice):
                return c[k]
            term = str_term(c)
            if k.step is not None and k.step != 1:
                n = self.known_len(c)
                if n is None or is_sym(k.start) or is_sym(k.stop) or is_sym(k.step):
                    self.unsupported("extended slice of a str of symbolic length")
                idxs = list(range(n))[slice(k.start, k.stop, k.step)]
                return self.str_concat([SStr(z3.SubString(term, i, 1)) for i in idxs]) if idxs else ""
            start, ln = self.slice_bounds(k, None, z3.Length(term))
            return SStr(z3.simplify(z3.SubString(term, start, ln)))
        if not is_intlike(k):
            self.py_raise(TypeError, "string indices must be integers, not '%s'"
                          % self.type_of(k).__name__)
        if not is_sym(c) and not is_sym(k):
            try:
                return c[k]
            except IndexError:
                self.py_raise(IndexError, "string index out of range")
        term = str_term(c)
        try:
            i = self.norm_index(k, z3.Length(term), None)
        except Exception:
            raise
        it = i if not isinstance(i, int) else z3.IntVal(i)
        return SStr(z3.simplify(z3.SubString(term, it, 1)))

    def setitem(self, c, k, v):
        from .seqs import SymDict
        if isinstance(c, SymDict):
            c.set(self, k, v)
            return
        if isinstance(c, SObj):
            m = self.class_lookup(c.cls, "__setitem__")
            if m is _MISSING:
                self.py_raise(TypeError, "'%s' object does not support item assignment" % c.cls.__name__)
            self.call_function(m, [c, k, v], {})
            return
        if isinstance(c, list):
            if is_sym(k):
                k = self.concretize_int(k, 70, "list index")
            try:
                c[k] = v
            except (IndexError, TypeError) as e:
                self.py_raise(type(e), *e.args)
            return
        if isinstance(c, dict):
            if is_sym(k):
                for key in list(c.keys()):
                    if self.truth(self.eq(k, key)):
                        c[key] = v
                        return
                self.unsupported("dict store under a new symbolic key")
            c[k] = v
            return
        if isinstance(c, SSeq):
            self.unsupported("item assignment on a symbolic sequence")
        self.py_raise(TypeError, "'%s' object does not support item assignment" % self.type_of(c).__name__)

    def dict_get(self, d, k, default):
        if not is_sym(k):
            try:
                hash(k)
            except TypeError:
                self.py_raise(TypeError, "unhashable type: '%s'" % type(k).__name__)
            if k in d:
                return d[k]
            # symbolic keys stored in the dict?  (not produced by this interpreter)
            if default is _MISSING:
                self.py_raise(KeyError, k)
            return default
        for key in list(d.keys()):
            if self.truth(self.eq(k, key)):
                return d[key]
        if default is _MISSING:
            self.py_raise(KeyError, k)
        return default

    def dict_find(self, d, k):
        """the key object of d that equals k (deciding symbolic equalities by case split), or _MISSING"""
        for key in list(d.keys()):
            if key is k:
                return key
            r = self.eq(k, key)
            if r is True or (r is not False and self.truth(r)):
                return key
        return _MISSING

    def dict_sym_method(self, d, name, args, kwargs):
        """dict operations when a key involved is symbolic (keys are compared by value, like CPython does
        through __eq__/__hash__)"""
        if name == "get":
            return self.dict_get(d, args[0], args[1] if len(args) > 1 else None)
        if name == "pop":
            key = self.dict_find(d, args[0])
            if key is _MISSING:
                if len(args) > 1:
                    return args[1]
                self.py_raise(KeyError, args[0])
            return d.pop(key)
        if name == "setdefault":
            key = self.dict_find(d, args[0])
            if key is _MISSING:
                d[args[0]] = args[1] if len(args) > 1 else None
                return d[args[0]]
            return d[key]
        if name == "update":
            src = dict(args[0]) if args else {}
            src.update(kwargs)
            for k, v in src.items():
                key = self.dict_find(d, k)
                d[k if key is _MISSING else key] = v
            return None
        self.unsupported("dict.%s with a symbolic key" % name)

    # ================================================================ comparison
    def compare(self, opname, a, b):
        table = {"==": ast.Eq, "!=": ast.NotEq, "<": ast.Lt, "<=": ast.LtE, ">": ast.Gt, ">=": ast.GtE}
        return self.compare_op(table[opname], a, b)

    def compare_op(self, op, a, b):
        if op is ast.Eq:
            return self.eq(a, b)
        if op is ast.NotEq:
            return self.neg(self.eq(a, b))
        if op is ast.Is:
            return self.identical(a, b)
        if op is ast.IsNot:
            return not self.identical(a, b)
        if op is ast.In:
            return self.contains(b, a)
        if op is ast.NotIn:
            return self.neg(self.contains(b, a))
        # ordering
        if is_intlike(a) and is_intlike(b):
            if not is_sym(a) and not is_sym(b):
                return {ast.Lt: a < b, ast.LtE: a <= b, ast.Gt: a > b, ast.GtE: a >= b}[op]
            ta, tb = int_term(a), int_term(b)
            return SBool({ast.Lt: ta < tb, ast.LtE: ta <= tb, ast.Gt: ta > tb, ast.GtE: ta >= tb}[op])
        if not is_sym(a) and not is_sym(b) and not isinstance(a, SObj) and not isinstance(b, SObj):
            try:
                return {ast.Lt: lambda: a < b, ast.LtE: lambda: a <= b,
                        ast.Gt: lambda: a > b, ast.GtE: lambda: a >= b}[op]()
            except TypeError as e:
                self.py_raise(TypeError, *e.args)
        if (is_intlike(a) or is_intlike(b)) and not (is_intlike(a) and is_intlike(b)):
            sym = {ast.Lt: "<", ast.LtE: "<=", ast.Gt: ">", ast.GtE: ">="}[op]
            self.py_raise(TypeError, "'%s' not supported between instances of '%s' and '%s'"
                          % (sym, self.type_of(a).__name__, self.type_of(b).__name__))
        self.unsupported("ordering comparison of %r and %r" % (type(a), type(b)))

    def neg(self, v):
        if isinstance(v, SBool):
            return SBool(z3.Not(v.term))
        if isinstance(v, bool):
            return not v
        return not self.truth(v)

    def identical(self, a, b):
        if a is b:
            return True
        if isinstance(a, (Sym, SObj, SExc)) or isinstance(b, (Sym, SObj, SExc)):
            if isinstance(a, SObj) and isinstance(b, SObj) and a.ref is not None and b.ref is not None:
                return self.branch(a.ref == b.ref)
            return False
        if isinstance(a, (bool, type(None))) or isinstance(b, (bool, type(None))):
            return a is b
        if isinstance(a, (int, str, bytes)) and type(a) is type(b):
            # CPython caches small ints / interned strings; code under proof only uses `is`
            # with None/True/False, flag anything else
            self.unsupported("`is` on int/str/bytes values")
        return a is b

    def eq(self, a, b):
        if isinstance(a, SObj):
            m = self.class_lookup(a.cls, "__eq__")
            if m is not _MISSING and m is not object.__eq__ and self.eng.is_repo_function(m):
                return self.call_function(m, [a, b], {})
            return a is b
        if isinstance(b, SObj):
            m = self.class_lookup(b.cls, "__eq__")
            if m is not _MISSING and m is not object.__eq__ and self.eng.is_repo_function(m):
                return self.call_function(m, [b, a], {})
            return False
        if not is_sym(a) and not is_sym(b):
            if isinstance(a, (list, tuple)) and type(a) is type(b):
                return self.seq_eq(a, b)
            if isinstance(a, SExc) or isinstance(b, SExc):
                return a is b
            try:
                return a == b
            except Exception as e:  # noqa
                self.py_raise(type(e), *e.args)
        if is_intlike(a) and is_intlike(b):
            return SBool(int_term(a) == int_term(b))
        if is_byteslike(a) and is_byteslike(b):
            ea, eb = bytes_elems(a), bytes_elems(b)
            if ea is not None and eb is not None:
                if len(ea) != len(eb):
                    return False
                if not ea:
                    return True
                ia = a.asint if isinstance(a, SBytes) else None
                ib = b.asint if isinstance(b, SBytes) else None
                if ia is not None and ib is not None:
                    return SBool(ia == ib)
                if ia is not None and not is_sym(b):
                    return SBool(ia == int.from_bytes(b, "big"))
                if ib is not None and not is_sym(a):
                    return SBool(ib == int.from_bytes(a, "big"))
                return SBool(z3.And(*[x == y for x, y in zip(ea, eb)]))
            return SBool(bytes_term(a) == bytes_term(b))
        if is_strlike(a) and is_strlike(b):
            return SBool(str_term(a) == str_term(b))
        if isinstance(a, SSeq) and isinstance(b, SSeq):
            return SBool(a.term == b.term)
        from .seqs import SVSeq
        if isinstance(a, SVSeq) or isinstance(b, SVSeq):
            ta = a.term if isinstance(a, SVSeq) else self._vseq_of_list(a)
            tb = b.term if isinstance(b, SVSeq) else self._vseq_of_list(b)
            if ta is None or tb is None:
                return False
            return SBool(ta == tb)
        if isinstance(a, SSeq) and isinstance(b, list):
            if len(b) == 0:
                return SBool(z3.Length(a.term) == 0)
            from .seqs import to_sseq
            return SBool(a.term == to_sseq(self, b, a.elem).term)
        if isinstance(b, SSeq) and isinstance(a, list):
            return self.eq(b, a)
        # different kinds never compare equal
        return False

    def _vseq_of_list(self, lst):
        from .seqs import VSEQ
        if not isinstance(lst, list) or not all(is_byteslike(x) for x in lst):
            return None
        if not lst:
            return z3.Empty(VSEQ)
        units = [z3.Unit(bytes_term(x)) for x in lst]
        return units[0] if len(units) == 1 else z3.Concat(*units)

    def seq_eq(self, a, b):
        if len(a) != len(b):
            return False
        res = True
        for x, y in zip(a, b):
            r = self.eq(x, y)
            if isinstance(r, SBool) or isinstance(res, SBool):
                if not isinstance(r, (bool, SBool)):
                    r = self.truth(r)
                res = SBool(z3.And(bool_term(res), bool_term(r)))
            else:
                if not r:
                    return False
        return res

    def contains(self, container, item):
        from .seqs import SymDict
        from .interp import SymDictKeys
        if isinstance(container, SymDictKeys):
            container = container.d
        if isinstance(container, SymDict):
            return container.contains(self, item)
        if isinstance(container, SObj):
            m = self.class_lookup(container.cls, "__contains__")
            if m is _MISSING:
                it = self.iter_concrete(container)
                return self.contains(it, item)
            return self.call_function(m, [container, item], {})
        if isinstance(container, (list, tuple, set, frozenset)) or type(container).__name__ in (
                "dict_keys", "dict_values"):
            if not is_sym(item) and not isinstance(item, SObj) and \
                    all(self.deep_concrete(x) for x in container):
                try:
                    return item in container
                except TypeError as e:
                    self.py_raise(TypeError, *e.args)
            acc = False
            for x in container:
                r = self.eq(item, x) if not (x is item) else True
                if isinstance(r, bool):
                    if r:
                        return True
                    continue
                if not isinstance(r, SBool):
                    r = self.truth(r)
                    if r:
                        return True
                    continue
                acc = r if acc is False else SBool(z3.Or(acc.term, r.term))
            return acc
        if isinstance(container, dict):
            if not is_sym(item):
                try:
                    return item in container
                except TypeError as e:
                    self.py_raise(TypeError, *e.args)
            return self.contains(list(container.keys()), item)
        if is_strlike(container):
            if not is_strlike(item):
                self.py_raise(TypeError, "'in <string>' requires string as left operand, not %s"
                              % self.type_of(item).__name__)
            if not is_sym(container) and not is_sym(item):
                return item in container
            return SBool(z3.Contains(str_term(container), str_term(item)))
        if is_byteslike(container):
            if is_byteslike(item):
                if not is_sym(container) and not is_sym(item):
                    return item in container
                return SBool(z3.Contains(bytes_term(container), bytes_term(item)))
            if is_intlike(item):
                self.unsupported("int in bytes")
            self.py_raise(TypeError, "a bytes-like object is required")
        from .seqs import SMapSeq, SVSeq
        if isinstance(container, SVSeq):
            if not is_byteslike(item):
                return False
            return SBool(z3.Contains(container.term, z3.Unit(bytes_term(item))))
        if isinstance(container, SMapSeq):
            import hashlib
            if is_byteslike(item):
                srt, it = BSEQ, bytes_term(item)
            elif is_strlike(item):
                srt, it = STR, str_term(item)
            elif is_intlike(item):
                srt, it = z3.IntSort(), int_term(item)
            else:
                self.unsupported("membership of %r in a mapped symbolic sequence" % type(item))
            h = hashlib.sha256(container.key.encode()).hexdigest()[:10]
            P = z3.Function("member_of_map!%s" % h, RSEQ, srt, z3.BoolSort())
            self.eng.externals_used.add("`v in [%s for x in <symbolic list>]` abstracted as an uninterpreted "
                                        "predicate of (list, v)" % container.elt_src)
            return SBool(P(container.seq.term, it))
        if isinstance(container, range):
            if not is_intlike(item):
                return False
            if not is_sym(item):
                return item in container
            t = int_term(item)
            a, b, st = container.start, container.stop, container.step
            if st > 0:
                c = z3.And(t >= a, t < b)
                if st != 1:
                    c = z3.And(c, (t - a) % st == 0)
            else:
                c = z3.And(t <= a, t > b, (a - t) % (-st) == 0)
            return SBool(c)
        if isinstance(container, SSeq):
            return self.sseq_contains(container, item)
        if container is None or isinstance(container, (int, SInt, SBool, Opaque)):
            self.py_raise(TypeError, "argument of type '%s' is not iterable" % self.type_of(container).__name__)
        if not is_sym(item):
            try:
                return item in container
            except Exception as e:  # noqa
                self.py_raise(type(e), *e.args)
        self.unsupported("membership in %r" % type(container))

    # ================================================================ formatting
    def to_str(self, v):
        from .extmodels import SExt, ext_str
        if isinstance(v, SExt):
            return ext_str(self, v)
        if isinstance(v, SStr):
            return v
        if isinstance(v, SInt):
            t = v.term
            if self.entails(t >= 0):
                r = z3.IntToStr(t)
                # facts about decimal rendering (A-ITOS): digits only, non-empty, parses back
                self.assume_raw(z3.InRe(r, z3.Plus(z3.Range("0", "9"))))
                self.assume_raw(z3.StrToInt(r) == t)
                return SStr(r)
            return SStr(z3.If(t < 0, z3.Concat(z3.StringVal("-"), z3.IntToStr(-t)), z3.IntToStr(t)))
        if isinstance(v, SBool):
            return "True" if self.branch(v.term) else "False"
        if isinstance(v, (SBytes, SObj, SExc, SSeq, SMethod, SClosure, Opaque)):
            # repr of symbolic data: sound over-approximation = an arbitrary string
            self.havoc_notes.add("str()/format of symbolic %s approximated by an arbitrary string"
                                 % type(v).__name__)
            return self.fresh_str("repr")
        if isinstance(v, (list, tuple, dict)) and not self.deep_concrete(v):
            self.havoc_notes.add("str()/format of a container with symbolic content approximated")
            return self.fresh_str("repr")
        return str(v)

    def format_value(self, v, conversion, spec):
        if conversion == ord("r"):
            if is_sym(v) or isinstance(v, (SObj, SExc)):
                self.havoc_notes.add("repr of symbolic value approximated by an arbitrary string")
                return self.fresh_str("repr")
            v = repr(v)
        if is_sym(spec):
            self.unsupported("symbolic format spec")
        if spec:
            if is_sym(v) or isinstance(v, SObj):
                self.unsupported("format spec %r on symbolic value" % spec)
            try:
                return format(v, spec)
            except Exception as e:  # noqa
                self.py_raise(type(e), *e.args)
        return self.to_str(v)

    # ================================================================ methods of symbolic values
    def call_sym_method(self, recv, name, args, kwargs):
        from .seqs import SymDict, SVSeq
        from .extmodels import SSync, sync_method
        if isinstance(recv, SSync):
            return sync_method(self, recv, name, args, kwargs)
        if isinstance(recv, SVSeq):
            if name == "append":
                if not is_byteslike(args[0]):
                    self.unsupported("append of a non-bytes value to a list of bytes values")
                recv.term = z3.Concat(recv.term, z3.Unit(bytes_term(args[0])))
                return None
            if name == "copy":
                return SVSeq(recv.term)
            if name == "__len__":
                return SInt(z3.Length(recv.term))
            if name == "remove":
                from .seqs import VSEQ
                if not is_byteslike(args[0]):
                    self.py_raise(ValueError, "list.remove(x): x not in list")
                u = z3.Unit(bytes_term(args[0]))
                if not self.branch(z3.Contains(recv.term, u)):
                    self.py_raise(ValueError, "list.remove(x): x not in list")
                pre = z3.Const(self.fresh_name("rm.pre"), VSEQ)
                post = z3.Const(self.fresh_name("rm.post"), VSEQ)
                self.assume_raw(z3.And(recv.term == z3.Concat(pre, u, post), z3.Not(z3.Contains(pre, u))))
                recv.term = z3.Concat(pre, post)
                return None
            self.unsupported("method %s of a symbolic list of values" % name)
        from .interp import SymDictKeys
        if isinstance(recv, SymDict):
            return self.symdict_method(recv, name, args, kwargs)
        if isinstance(recv, SymDictKeys):
            if name == "__contains__":
                return recv.d.contains(self, args[0])
            self.unsupported("dict_keys.%s on a symbolic dict" % name)
        if isinstance(recv, (set, frozenset, SymSet)) and name == "issubset":
            return _m_issubset_method(self, recv, args[0])
        if isinstance(recv, list) and name in self.CONTAINER_METHODS:
            return self.list_method(recv, name, args)
        if isinstance(recv, dict) and name in self.CONTAINER_METHODS:
            if name == "__contains__":
                return self.contains(recv, args[0])
            self.unsupported("dict.%s" % name)
        if is_byteslike(recv):
            return self.bytes_method(recv, name, args, kwargs)
        if is_strlike(recv):
            return self.str_method(recv, name, args, kwargs)
        if is_intlike(recv):
            return self.int_method(recv, name, args, kwargs)
        if isinstance(recv, SSeq):
            return self.sseq_method(recv, name, args, kwargs)
        self.unsupported("method %s on %r" % (name, type(recv)))

    def list_method(self, lst, name, args):
        if name == "__contains__":
            return self.contains(lst, args[0])
        x = args[0]
        if name == "remove":
            for i, y in enumerate(lst):
                if y is x or self.truth(self.eq(y, x)):
                    del lst[i]
                    return None
            self.py_raise(ValueError, "list.remove(x): x not in list")
        if name == "index":
            for i, y in enumerate(lst):
                if y is x or self.truth(self.eq(y, x)):
                    return i
            self.py_raise(ValueError, "x is not in list")
        if name == "count":
            n = 0
            for y in lst:
                if y is x or self.truth(self.eq(y, x)):
                    n += 1
            return n
        self.unsupported("list.%s" % name)

    def int_method(self, recv, name, args, kwargs):
        if name == "to_bytes":
            length = args[0] if args else kwargs.get("length", 1)
            order = args[1] if len(args) > 1 else kwargs.get("byteorder", "big")
            signed = kwargs.get("signed", False)
            return self.int_to_bytes(recv, length, order, signed)
        if name == "bit_length" and not is_sym(recv):
            return recv.bit_length()
        self.unsupported("int.%s" % name)

    def int_to_bytes(self, n, length, order, signed=False):
        if is_sym(length) or signed or order != "big":
            self.unsupported("to_bytes variant")
        if not is_sym(n):
            try:
                return int(n).to_bytes(length, order)
            except OverflowError as e:
                self.py_raise(OverflowError, *e.args)
        t = int_term(n)
        if self.branch(t < 0):
            self.py_raise(OverflowError, "can't convert negative int to unsigned")
        if self.branch(t >= z3.IntVal(_pow2(8 * length))):
            self.py_raise(OverflowError, "int too big to convert")
        return self.be_bytes(t, length)

    def be_bytes(self, t, length):
        """big-endian bytes of an Int term known to be in [0, 256**length): fresh byte constants
        tied to t by the base-256 digit equation (pure linear arithmetic, no int2bv)"""
        if length == 0:
            return b""
        t = z3.simplify(t)
        key = (t.get_id(), length)
        hit = self.be_cache.get(key)
        if hit is not None:
            return SBytes(elems=hit[1], asint=t)
        nm = self.fresh_name("be%d" % length)
        elems = [z3.Int("%s.%d" % (nm, i)) for i in range(length)]
        for e in elems:
            self.assume_raw(z3.And(e >= 0, e <= 255))
        self.assume_raw(t == digits_value(elems))
        self.be_cache[key] = (t, elems)
        return SBytes(elems=elems, asint=t)

    def bytes_method(self, recv, name, args, kwargs):
        if name == "hex":
            if not is_sym(recv):
                return recv.hex()
            el = self.fix_bytes(recv)
            if el is not None:
                parts = []
                for e in el.elems:
                    for nib in (e / 16, e % 16):
                        parts.append(SStr(self._nibble_char(nib)))
                return self.str_concat(parts) if parts else ""
            return SStr(HEX_OF(recv.term))
        if name == "decode":
            if not is_sym(recv):
                try:
                    return recv.decode(*args, **kwargs)
                except UnicodeDecodeError as e:
                    self.py_raise(UnicodeDecodeError, *e.args)
            t = bytes_term(recv)
            if self.branch(UTF8_OK(t)):
                s = UTF8_DEC(t)
                self.assume_raw(UTF8_ENC(s) == t)
                self.eng.externals_used.add("bytes.decode('utf-8') (assumed: total on utf8_ok, inverse of encode)")
                self.assume_raw(z3.And(z3.Length(s) <= z3.Length(t), 4 * z3.Length(s) >= z3.Length(t)))
                return SStr(s)
            errors = kwargs.get("errors", args[1] if len(args) > 1 else "strict")
            if errors == "replace":
                # every undecodable byte sequence becomes U+FFFD: the result is some text that contains
                # the replacement character (its other characters are not modelled)
                r = self.fresh_str("decoded_with_replacement")
                self.assume_raw(z3.Contains(r.term, z3.StringVal("\\u{fffd}")))
                self.assume_raw(z3.Length(r.term) <= z3.Length(t))
                self.eng.externals_used.add("bytes.decode('utf-8', errors='replace') on invalid UTF-8: some text "
                                            "containing U+FFFD")
                return r
            self.py_raise(UnicodeDecodeError, "utf-8", b"", 0, 1, "invalid start byte")
        if name == "startswith":
            p = args[0]
            if not is_byteslike(p):
                self.unsupported("startswith non-bytes")
            return SBool(z3.PrefixOf(bytes_term(p), bytes_term(recv)))
        if name == "endswith":
            p = args[0]
            return SBool(z3.SuffixOf(bytes_term(p), bytes_term(recv)))
        if name == "__len__":
            return self.length_of(recv)
        if name == "join":
            items = self.iter_concrete(args[0])
            parts = []
            for i, it in enumerate(items):
                if i:
                    parts.append(recv)
                parts.append(it)
            return self.bytes_concat(parts)
        self.unsupported("bytes.%s on symbolic data" % name)

    def _nibble_char(self, nib):
        t = z3.StringVal("f")
        for v in range(14, -1, -1):
            t = z3.If(nib == z3.IntVal(v), z3.StringVal("0123456789abcdef"[v]), t)
        return t

    def str_method(self, recv, name, args, kwargs):
        if name == "encode":
            if not is_sym(recv):
                return recv.encode(*args, **kwargs)
            t = str_term(recv)
            b = UTF8_ENC(t)
            self.assume_raw(z3.And(UTF8_OK(b), UTF8_DEC(b) == t))
            self.assume_raw(z3.And(z3.Length(b) >= z3.Length(t), z3.Length(b) <= 4 * z3.Length(t)))
            self.assume_raw((z3.Length(b) == 0) == (z3.Length(t) == 0))
            self.eng.externals_used.add("str.encode('utf-8') (assumed: injective, len(bytes) >= len(str), "
                                        "inverse of decode; surrogates not modelled)")
            return SBytes(term=b)
        if name == "__len__":
            return self.length_of(recv)
        if name == "startswith":
            return SBool(z3.PrefixOf(str_term(args[0]), str_term(recv)))
        if name == "endswith":
            return SBool(z3.SuffixOf(str_term(args[0]), str_term(recv)))
        if name == "replace":
            old, new = args[0], args[1]
            if is_sym(old) or is_sym(new) or len(args) > 2:
                self.unsupported("str.replace with symbolic pattern")
            if len(old) == 0:
                self.unsupported("replace of empty pattern")
            f = z3.Function("str_replace!%s!%s" % (old.encode().hex(), new.encode().hex()), STR, STR)
            self.eng.externals_used.add("str.replace(%r, %r) on symbolic text (uninterpreted function)" % (old, new))
            return SStr(f(str_term(recv)))
        if name == "join":
            items = self.iter_concrete(args[0])
            parts = []
            for i, it in enumerate(items):
                if not is_strlike(it):
                    self.py_raise(TypeError, "sequence item %d: expected str instance" % i)
                if i:
                    parts.append(recv)
                parts.append(it)
            return self.str_concat(parts)
        if name == "format":
            self.unsupported("str.format with symbolic arguments")
        if name in ("strip", "lstrip", "rstrip", "title", "capitalize", "casefold", "swapcase") and not args:
            f = z3.Function("str_" + name, STR, STR)
            self.eng.externals_used.add("str.%s on symbolic text (uninterpreted function)" % name)
            return SStr(f(str_term(recv)))
        if name in ("upper", "lower"):
            # modelled only through an uninterpreted function (case mapping is the library's)
            f = z3.Function("str_" + name, STR, STR)
            t = str_term(recv)
            r = f(t)
            self.assume_raw(z3.Length(r) == z3.Length(t))
            self.eng.externals_used.add("str.%s (uninterpreted, length-preserving)" % name)
            return SStr(r)
        if name == "split":
            from .extmodels import SSplit
            if len(args) != 1 or is_sym(args[0]) or not isinstance(args[0], str) or not args[0]:
                self.unsupported("str.split variant on symbolic data")
            return SSplit(recv, args[0])
        if name == "isdigit":
            self.unsupported("str.isdigit on symbolic data")
        self.unsupported("str.%s on symbolic data" % name)

    # ================================================================ symbolic dicts / sequences
    def symdict_method(self, d, name, args, kwargs):
        from .interp import SymDictKeys
        if name == "keys":
            return SymDictKeys(d)
        if name == "update":
            if args:
                src = args[0]
                if not isinstance(src, dict):
                    self.unsupported("SymDict.update from a non-dict")
                for k, v in src.items():
                    d.set(self, k, v)
            for k, v in kwargs.items():
                d.set(self, k, v)
            return None
        if name == "pop":
            return d.pop(self, args[0], args[1] if len(args) > 1 else _MISSING)
        if name == "get":
            return d.get(self, args[0], args[1] if len(args) > 1 else None)
        if name == "__contains__":
            return d.contains(self, args[0])
        if name == "items" or name == "values":
            if d.rest or d.sym:
                self.unsupported("items()/values() of an instance dict with unknown entries")
            return list(getattr(d.known, name)())
        self.unsupported("dict.%s on an instance dict with unknown entries" % name)

    def sseq_getitem(self, s, k):
        from .interp import SymSlice
        if isinstance(k, (slice, SymSlice)):
            self.unsupported("slice of a symbolic sequence")
        i = self.norm_index(k, z3.Length(s.term), None)
        it = i if not isinstance(i, int) else z3.IntVal(i)
        e = z3.simplify(s.term[it])
        cache = self.elem_cache.get(s.elem.name, {})
        if e.get_id() not in cache and len(cache) <= 4:
            # the element may be an object this path itself put into the sequence: return THAT object
            for rid, (r, obj) in list(cache.items()):
                if self.entails(e == r):
                    return obj
        return s.elem.materialize(self, e)

    def sseq_contains(self, s, item):
        if isinstance(item, SObj) and item.ref is not None and s.elem.by_identity:
            return SBool(z3.Contains(s.term, z3.Unit(item.ref)))
        if isinstance(item, SObj):
            # membership by VALUE (`==` of the element class, e.g. DiameterAVP.__eq__ compares encodings) of an
            # object that is not itself an element: the elements are arbitrary, so "some element equals it" is
            # an unknown of the path -- possible exactly when the sequence is non-empty
            b = z3.Bool(self.fresh_name("member"))
            self.assume_raw(z3.Implies(b, z3.Length(s.term) > 0))
            return SBool(b)
        self.unsupported("membership in a symbolic sequence")

    def sseq_method(self, s, name, args, kwargs):
        if name == "append":
            x = args[0]
            if not isinstance(x, SObj):
                self.unsupported("append of a non-object to a symbolic sequence")
            r = s.elem.adopt(self, x)
            old = SSeq(s.term, s.elem, s.struct)
            s.term = z3.Concat(s.term, z3.Unit(r))
            s.struct = ("snoc", old, x)
            return None
        if name == "extend":
            src = args[0]
            if isinstance(src, SSeq):
                old = SSeq(s.term, s.elem, s.struct)
                s.term = z3.Concat(s.term, src.term)
                s.struct = ("concat", old, SSeq(src.term, src.elem, src.struct))
                return None
            for x in self.iter_concrete(src):
                self.sseq_method(s, "append", [x], {})
            return None
        if name == "copy":
            return SSeq(s.term, s.elem, s.struct)
        if name == "__len__":
            return self.length_of(s)
        if name == "remove":
            # list.remove(x): drops the FIRST element y with `y is x or y == x` (== is the class's own
            # __eq__, evaluated through its contract); ValueError when there is none.
            x = args[0]
            if not isinstance(x, SObj):
                self.unsupported("remove of a non-object from a symbolic sequence")
            found = z3.Bool(self.fresh_name("rm.found"))
            if x.ref is not None:
                self.assume_raw(z3.Implies(z3.Contains(s.term, z3.Unit(x.ref)), found))
            if not self.branch(found):
                self.py_raise(ValueError, "list.remove(x): x not in list")
            A = SSeq(z3.Const(self.fresh_name("rm.before"), RSEQ), s.elem, ("var",))
            Bq = SSeq(z3.Const(self.fresh_name("rm.after"), RSEQ), s.elem, ("var",))
            y = self.fresh_ref("rm.y")
            self.assume_raw(s.term == z3.Concat(A.term, z3.Unit(y), Bq.term))
            yo = s.elem.materialize(self, y)
            same = self.identical(yo, x) if x.ref is not None else False
            if not same:
                eqv = self.eq(yo, x)
                self.assume(eqv if isinstance(eqv, SBool) else z3.BoolVal(bool(eqv)))
            old = SSeq(s.term, s.elem, s.struct)
            unit = SSeq(z3.Unit(y), s.elem, ("snoc", SSeq(z3.Empty(RSEQ), s.elem, ("empty",)), yo))
            old.struct = ("concat", SSeq(z3.Concat(A.term, z3.Unit(y)), s.elem, ("concat", A, unit)), Bq)
            self.ghost["rm_before"], self.ghost["rm_after"], self.ghost["rm_removed"] = A, Bq, yo
            self.ghost["rm_old"] = old
            s.term = z3.Concat(A.term, Bq.term)
            s.struct = ("concat", A, Bq)
            return None
        self.unsupported("method %s of a symbolic sequence" % name)

    def _clone_struct(self, st, memo):
        k = st[0]
        if k == "snoc":
            base, xo = st[1], st[2]
            if getattr(xo, "mutable_elem", False):
                if xo.ref is None:
                    base.elem.adopt(self, xo)
                xo = self.clone(xo, memo, deep=False)
            return ("snoc", SSeq(base.term, base.elem, self._clone_struct(base.struct, memo)), xo)
        if k == "concat":
            a, b = st[1], st[2]
            return ("concat", SSeq(a.term, a.elem, self._clone_struct(a.struct, memo)),
                    SSeq(b.term, b.elem, self._clone_struct(b.struct, memo)))
        if k == "alias":
            a = st[1]
            return ("alias", SSeq(a.term, a.elem, self._clone_struct(a.struct, memo)))
        return st

    def seq_assume_valid(self, term, elem):
        return None

    # ================================================================ copy
    def clone(self, v, memo=None, deep=True):
        memo = {} if memo is None else memo
        if id(v) in memo:
            return memo[id(v)]
        if isinstance(v, SObj):
            o = SObj(v.cls, has_dict=v.idict is not None)
            memo[id(v)] = o
            for k, x in v.slots.items():
                o.slots[k] = self.clone(x, memo) if deep else x
            from .seqs import SymDict
            if isinstance(v.idict, SymDict):
                d = v.idict.copy()
                d.known = {k: (self.clone(x, memo) if deep else x) for k, x in d.known.items()}
                d.sym = [(k, (self.clone(x, memo) if deep else x)) for k, x in d.sym]
                o.idict = d
            elif v.idict is not None:
                for k, x in v.idict.items():
                    o.idict[k] = self.clone(x, memo) if deep else x
            o.ref = v.ref
            o.frozen = v.frozen
            o.elem_kind = v.elem_kind          # (a clone is a snapshot: never `mutable_elem`)
            return o
        if isinstance(v, SSeq):
            from .values import _struct_dynamic
            if _struct_dynamic(v.struct, 0):
                # snapshot of a list that names mutable members: fix the term as it is now and let the
                # structure refer to snapshots of those members (folds over the OLD list see the old content)
                o = SSeq(v.term, v.elem, self._clone_struct(v.struct, memo))
            else:
                o = SSeq(v.term, v.elem, v.struct)
            memo[id(v)] = o
            return o
        if type(v).__name__ == "SVSeq":
            from .seqs import SVSeq
            return SVSeq(v.term)
        if isinstance(v, list):
            o = []
            memo[id(v)] = o
            o.extend((self.clone(x, memo) if deep else x) for x in v)
            return o
        if isinstance(v, dict):
            o = {}
            memo[id(v)] = o
            for k, x in v.items():
                o[k] = self.clone(x, memo) if deep else x
            return o
        if isinstance(v, tuple):
            return tuple((self.clone(x, memo) if deep else x) for x in v)
        return v


# ============================================================================ native models
def _m_len(ctx, args, kwargs):
    if len(args) != 1:
        ctx.py_raise(TypeError, "len() takes exactly one argument (%d given)" % len(args))
    return ctx.length_of(args[0])


def _m_isinstance(ctx, args, kwargs):
    return ctx.isinstance_(args[0], args[1])


def _m_issubclass(ctx, args, kwargs):
    return issubclass(args[0], args[1])


def _m_type(ctx, args, kwargs):
    if len(args) != 1:
        ctx.unsupported("type() with 3 arguments")
    return ctx.type_of(args[0])


def _m_id(ctx, args, kwargs):
    v = args[0]
    if isinstance(v, SObj):
        if v.ref is not None:
            ctx.unsupported("id() of an abstract sequence element")
        return 0x7f0000000000 + v.oid * 64
    if is_sym(v):
        ctx.unsupported("id() of a symbolic scalar")
    return id(v)


def _m_getattr(ctx, args, kwargs):
    if is_sym(args[1]):
        ctx.unsupported("getattr with symbolic name")
    if len(args) > 2:
        from .engine import PyRaise
        try:
            return ctx.getattr_(args[0], args[1])
        except PyRaise as r:
            if issubclass(r.exc.cls, AttributeError):
                return args[2]
            raise
    return ctx.getattr_(args[0], args[1])


def _m_setattr(ctx, args, kwargs):
    if is_sym(args[1]):
        ctx.unsupported("setattr with symbolic name")
    ctx.setattr_(args[0], args[1], args[2])
    return None


def _m_hasattr(ctx, args, kwargs):
    from .engine import PyRaise
    try:
        ctx.getattr_(args[0], args[1])
        return True
    except PyRaise as r:
        if issubclass(r.exc.cls, AttributeError):
            return False
        raise


def _m_int_from_bytes(ctx, args, kwargs):
    b = args[0] if args else kwargs.get("bytes")
    order = args[1] if len(args) > 1 else kwargs.get("byteorder", "big")
    if kwargs.get("signed", False) or order != "big":
        ctx.unsupported("from_bytes variant")
    if not is_byteslike(b):
        if b is None or is_intlike(b) or isinstance(b, Opaque):
            ctx.py_raise(TypeError, "cannot convert '%s' object to bytes" % ctx.type_of(b).__name__)
        if isinstance(b, (list, tuple)):
            b = _m_bytes(ctx, [list(b)], {})
        elif isinstance(b, str) or isinstance(b, SStr):
            ctx.py_raise(TypeError, "cannot convert 'str' object to bytes")
        else:
            ctx.unsupported("from_bytes of %r" % type(b))
    if not is_sym(b):
        return int.from_bytes(b, "big")
    if b.asint is not None:
        return SInt(b.asint, nbits=8 * len(b.elems))
    f = ctx.fix_bytes(b)
    if f is None:
        ctx.unsupported("int.from_bytes on bytes of symbolic length")
    if len(f.elems) == 0:
        return 0
    dv = z3.simplify(digits_value(f.elems))
    # meta-level inverse: be(from_bytes(e), k) is e itself
    ctx.be_cache.setdefault((dv.get_id(), len(f.elems)), (dv, list(f.elems)))
    return SInt(dv, nbits=8 * len(f.elems))


_STRUCT_FMT = {">B": (1, False), ">H": (2, False), ">L": (4, False), ">I": (4, False),
               ">Q": (8, False), ">q": (8, True), ">b": (1, True), ">h": (2, True), ">l": (4, True),
               ">i": (4, True), "!B": (1, False), "!H": (2, False), "!L": (4, False), "!I": (4, False)}


def _m_struct_pack(ctx, args, kwargs):
    fmt = args[0]
    if is_sym(fmt) or fmt not in _STRUCT_FMT or len(args) != 2:
        if all(ctx.deep_concrete(a) for a in args):
            try:
                return _struct.pack(*args)
            except _struct.error as e:
                ctx.py_raise(_struct.error, *e.args)
        ctx.unsupported("struct.pack format %r" % (fmt,))
    k, signed = _STRUCT_FMT[fmt]
    x = args[1]
    if not is_intlike(x):
        ctx.py_raise(_struct.error, "required argument is not an integer")
    if not is_sym(x):
        try:
            return _struct.pack(fmt, x)
        except _struct.error as e:
            ctx.py_raise(_struct.error, *e.args)
    t = int_term(x)
    lo, hi = (-(1 << (8 * k - 1)), (1 << (8 * k - 1)) - 1) if signed else (0, (1 << (8 * k)) - 1)
    if ctx.branch(z3.Or(t < lo, t > hi)):
        ctx.py_raise(_struct.error, "argument out of range")
    if signed:
        if ctx.entails(t >= 0):
            return ctx.be_bytes(t, k)
        # two's complement
        return ctx.be_bytes(z3.If(t < 0, t + z3.IntVal(1 << (8 * k)), t), k)
    return ctx.be_bytes(t, k)


def _byte_elem(ctx, v):
    if isinstance(v, bool):
        v = int(v)
    if isinstance(v, int):
        if not 0 <= v < 256:
            ctx.py_raise(ValueError, "bytes must be in range(0, 256)")
        return z3.IntVal(v)
    if isinstance(v, (SInt, SBool)):
        t = int_term(v)
        if isinstance(v, SInt) and v.nbits is not None and v.nbits <= 8:
            return t
        if ctx.branch(z3.Or(t < 0, t > 255)):
            ctx.py_raise(ValueError, "bytes must be in range(0, 256)")
        return t
    ctx.py_raise(TypeError, "'%s' object cannot be interpreted as an integer" % ctx.type_of(v).__name__)


def _m_bytes(ctx, args, kwargs):
    if not args:
        return b""
    x = args[0]
    if len(args) > 1 or kwargs:
        if all(ctx.deep_concrete(a) for a in args):
            try:
                return bytes(*args, **kwargs)
            except Exception as e:  # noqa
                ctx.py_raise(type(e), *e.args)
        if is_strlike(x):
            return ctx.str_method(x, "encode", list(args[1:]), kwargs)
        ctx.unsupported("bytes() variant")
    if is_byteslike(x):
        return bytes(x) if isinstance(x, bytearray) else x
    if is_intlike(x):
        n = ctx.concretize_int(x, 16, "bytes(n)")
        if n < 0:
            ctx.py_raise(ValueError, "negative count")
        return bytes(n)
    if is_strlike(x):
        ctx.py_raise(TypeError, "string argument without an encoding")
    if isinstance(x, SObj):
        m = ctx.class_lookup(x.cls, "__bytes__")
        if m is not _MISSING:
            return ctx.call_function(m, [x], {})
        ctx.py_raise(TypeError, "cannot convert '%s' object to bytes" % x.cls.__name__)
    if x is None or isinstance(x, Opaque):
        ctx.py_raise(TypeError, "cannot convert '%s' object to bytes" % ctx.type_of(x).__name__)
    items = ctx.iter_concrete(x)
    if all(isinstance(i, int) and not isinstance(i, bool) for i in items):
        try:
            return bytes(items)
        except ValueError as e:
            ctx.py_raise(ValueError, *e.args)
    return SBytes(elems=[_byte_elem(ctx, i) for i in items])


def _m_str(ctx, args, kwargs):
    if not args:
        return ""
    if len(args) > 1 or kwargs:
        if is_byteslike(args[0]):
            return ctx.bytes_method(args[0], "decode", list(args[1:]), kwargs)
        ctx.unsupported("str() variant")
    v = args[0]
    if isinstance(v, SObj):
        m = ctx.class_lookup(v.cls, "__str__")
        if m is not _MISSING and m is not object.__str__:
            return ctx.call_function(m, [v], {})
    return ctx.to_str(v)


def _m_repr(ctx, args, kwargs):
    v = args[0]
    if is_sym(v) or isinstance(v, (SObj, SExc)):
        ctx.havoc_notes.add("repr of symbolic value approximated by an arbitrary string")
        return ctx.fresh_str("repr")
    return repr(v)


def _m_int(ctx, args, kwargs):
    if not args:
        return 0
    v = args[0]
    if len(args) > 1 or kwargs:
        if all(ctx.deep_concrete(a) for a in args):
            try:
                return int(*args, **kwargs)
            except Exception as e:  # noqa
                ctx.py_raise(type(e), *e.args)
        ctx.unsupported("int(x, base) with symbolic x")
    if isinstance(v, SInt):
        return v
    if isinstance(v, SBool):
        return SInt(int_term(v))
    if isinstance(v, SStr):
        n = z3.StrToInt(v.term)
        # (stated as `digits* and non-empty`: the same atoms the spec intrinsic is_digits and the length bounds of
        # the shapes put into the path condition, so the arithmetic abstraction alone decides the branch -- no
        # string-solver call whose answer could depend on machine load)
        if ctx.branch(z3.And(z3.InRe(v.term, z3.Star(z3.Range("0", "9"))), z3.Length(v.term) > 0)):
            ctx.assume_raw(n >= 0)
            # all-digit string (CPython also accepts sign, blanks and underscores: those
            # inputs are outside the modelled domain and end up on the other branch)
            return SInt(n)
        # not all digits: CPython still accepts a sign, surrounding blanks and underscores; every
        # other text raises ValueError.  Over-approximated: either outcome, any value.
        if ctx.choose(2, "int(non-digit text)") == 0:
            ctx.py_raise(ValueError, "invalid literal for int() with base 10")
        ctx.havoc_notes.add("int(str) on text that is not all digits: any int or ValueError")
        return ctx.fresh_int("int_of_text")
    if isinstance(v, SBytes):
        ctx.unsupported("int(bytes)")
    if isinstance(v, (SObj, Opaque)) or v is None:
        ctx.py_raise(TypeError, "int() argument must be a string, a bytes-like object or a real number, not '%s'"
                     % ctx.type_of(v).__name__)
    try:
        return int(v)
    except Exception as e:  # noqa
        ctx.py_raise(type(e), *e.args)


def _m_bool(ctx, args, kwargs):
    if not args:
        return False
    v = args[0]
    if isinstance(v, SBool):
        return v
    return ctx.truth(v)


def _m_list(ctx, args, kwargs):
    if not args:
        return []
    v = args[0]
    if isinstance(v, SSeq):
        return SSeq(v.term, v.elem, v.struct)
    return list(ctx.iter_concrete(v))


def _m_tuple(ctx, args, kwargs):
    if not args:
        return ()
    v = args[0]
    if isinstance(v, SSeq):
        return SSeq(v.term, v.elem, v.struct)
    return tuple(ctx.iter_concrete(v))


def _m_dict(ctx, args, kwargs):
    d = {}
    if args:
        a = args[0]
        if isinstance(a, dict):
            d.update(a)
        else:
            for kv in ctx.iter_concrete(a):
                k, v = ctx.iter_concrete(kv)
                if is_sym(k):
                    ctx.unsupported("dict() with symbolic key")
                d[k] = v
    d.update(kwargs)
    return d


def _m_set(ctx, args, kwargs):
    if not args:
        return set()
    from .seqs import SMapSeq
    if isinstance(args[0], SMapSeq):
        return args[0]
    if type(args[0]).__name__ == "SVSeq":
        # set(<list of bytes values of symbolic length>): only membership is modelled, and membership in the
        # set is membership in the list AS IT WAS when the set was built (a snapshot)
        from .seqs import SVSeq
        return SVSeq(args[0].term)
    items = ctx.iter_concrete(args[0])
    if not all(ctx.deep_concrete(i) for i in items):
        return SymSet(items)
    try:
        return set(items)
    except TypeError as e:
        ctx.py_raise(TypeError, *e.args)


class SymSet(object):
    """a set of possibly symbolic values (only issubset/`in` are modelled)"""

    def __init__(self, items):
        self.items = list(items)


def _m_any(ctx, args, kwargs):
    for x in ctx.iter_concrete(args[0]):
        if ctx.truth(x):
            return True
    return False


def _m_all(ctx, args, kwargs):
    for x in ctx.iter_concrete(args[0]):
        if not ctx.truth(x):
            return False
    return True


def _m_zip(ctx, args, kwargs):
    seqs = [ctx.iter_concrete(a) for a in args]
    return [tuple(t) for t in zip(*seqs)]


def _m_enumerate(ctx, args, kwargs):
    start = args[1] if len(args) > 1 else kwargs.get("start", 0)
    if isinstance(args[0], SSeq):
        from .seqs import SEnumSeq
        return SEnumSeq(args[0], start)
    return [(i, x) for i, x in enumerate(ctx.iter_concrete(args[0]), start)]


def _m_filter(ctx, args, kwargs):
    f, it = args
    out = []
    for x in ctx.iter_concrete(it):
        r = x if f is None else ctx.call_function(f, [x], {})
        if ctx.truth(r):
            out.append(x)
    return out


def _m_map(ctx, args, kwargs):
    f = args[0]
    seqs = [ctx.iter_concrete(a) for a in args[1:]]
    return [ctx.call_function(f, list(t), {}) for t in zip(*seqs)]


def _m_reversed(ctx, args, kwargs):
    return list(reversed(ctx.iter_concrete(args[0])))


def _m_sum(ctx, args, kwargs):
    acc = args[1] if len(args) > 1 else 0
    for x in ctx.iter_concrete(args[0]):
        acc = ctx.binop(ast.Add, acc, x)
    return acc


def _m_minmax(which):
    def m(ctx, args, kwargs):
        items = list(args) if len(args) > 1 else ctx.iter_concrete(args[0])
        if all(not is_sym(i) for i in items):
            try:
                return (min if which == "min" else max)(items)
            except Exception as e:  # noqa
                ctx.py_raise(type(e), *e.args)
        best = items[0]
        for x in items[1:]:
            c = ctx.compare("<" if which == "min" else ">", x, best)
            if ctx.truth(c):
                best = x
        return best
    return m


def _m_abs(ctx, args, kwargs):
    v = args[0]
    if is_sym(v):
        t = int_term(v)
        return SInt(z3.If(t < 0, -t, t))
    return abs(v)


def _m_callable(ctx, args, kwargs):
    v = args[0]
    if isinstance(v, (SMethod, SClosure)):
        return True
    if isinstance(v, SObj):
        return ctx.class_lookup(v.cls, "__call__") is not _MISSING
    if is_sym(v) or isinstance(v, (SExc, Opaque)):
        return False
    return callable(v)


def _m_deepcopy(ctx, args, kwargs):
    return ctx.clone(args[0], deep=True)


def _m_copy(ctx, args, kwargs):
    return ctx.clone(args[0], deep=False)


def _m_urandom(ctx, args, kwargs):
    n = args[0]
    if is_sym(n):
        ctx.unsupported("os.urandom(symbolic)")
    ctx.eng.externals_used.add("os.urandom (assumed contract: returns ANY n bytes; every call havoc'd)")
    r = ctx.fresh_bytes("urandom", n)
    cc = ctx.cur_contract
    h = (getattr(cc, "externals_interference", None) or {}).get("os.urandom") if cc is not None else None
    if h is not None:
        ctx.call_spec(h, dict(ctx.entry_ns))      # what other threads may have done while this call was running
    return r


def _m_bytearray(ctx, args, kwargs):
    return _m_bytes(ctx, args, kwargs)


def _m_fromhex(ctx, args, kwargs):
    s = args[0]
    if not is_sym(s):
        try:
            return bytes.fromhex(s)
        except Exception as e:  # noqa
            ctx.py_raise(type(e), *e.args)
    ctx.eng.externals_used.add("bytes.fromhex on symbolic text (uninterpreted function; no ValueError path modelled)")
    return SBytes(term=FROMHEX(str_term(s)))


def _m_issubset_method(ctx, recv, other):
    from .seqs import SMapSeq
    items = recv.items if isinstance(recv, SymSet) else list(recv)
    if isinstance(other, SMapSeq):
        other_items = other
    else:
        other_items = ctx.iter_concrete(other) if not isinstance(other, SymSet) else other.items
    for x in items:
        if not ctx.truth(ctx.contains(other_items, x)):
            return False
    return True


def _m_print(ctx, args, kwargs):
    return None


ModelsMixin.NATIVE_MODEL_TABLE = {
    "builtins.len": _m_len,
    "builtins.isinstance": _m_isinstance,
    "builtins.issubclass": _m_issubclass,
    "builtins.id": _m_id,
    "builtins.getattr": _m_getattr,
    "builtins.setattr": _m_setattr,
    "builtins.hasattr": _m_hasattr,
    "int.from_bytes": _m_int_from_bytes,
    "_struct.pack": _m_struct_pack,
    "builtins.repr": _m_repr,
    "builtins.any": _m_any,
    "builtins.all": _m_all,
    "builtins.sum": _m_sum,
    "builtins.min": _m_minmax("min"),
    "builtins.max": _m_minmax("max"),
    "builtins.abs": _m_abs,
    "builtins.callable": _m_callable,
    "builtins.print": _m_print,
    "posix.urandom": _m_urandom,
    "bytes.fromhex": _m_fromhex,
}

ModelsMixin.CLASS_MODELS = {
    bytes: _m_bytes, bytearray: _m_bytearray, str: _m_str, int: _m_int, bool: _m_bool,
    list: _m_list, tuple: _m_tuple, dict: _m_dict, set: _m_set, type: _m_type,
    zip: _m_zip, enumerate: _m_enumerate, filter: _m_filter, map: _m_map, reversed: _m_reversed,
}

ModelsMixin.FUNCTION_MODELS = {
    "copy.deepcopy": _m_deepcopy,
    "copy.copy": _m_copy,
}


class _NativeModels(object):
    """lookup of a native callable's model by its qualified name"""

    def get(self, fn):
        k = native_key(fn)
        if k is None:
            return None
        return ModelsMixin.NATIVE_MODEL_TABLE.get(k)


ModelsMixin.NATIVE_MODELS = _NativeModels()
