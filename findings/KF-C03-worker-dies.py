"""KF-C03-worker-dies: wire data that makes the decoder raise a library error other than AVPParsingError
(here: a Host-IP-Address AVP of 3 data bytes -> DataTypeError) escapes DiameterAssociation.
recv_message_from_queue, which only catches AVPParsingError: the receive worker ends and the association
lock stays held (every later put/send/get_message call blocks).  exit 1 = reproduced."""
import sys
sys.path.insert(0, "/verif")
from bromelia._internal_utils import Connection, LocalNode, PeerNode
from bromelia.proxy import DiameterBaseProxy
from bromelia.setup import DiameterAssociation
from bromelia.base import DiameterMessage, DiameterHeader, DiameterAVP
from contracts.stubs import FakeRecvEvent, FakeRecvTransport

conn = Connection(name="x", mode="SERVER", transport_type="TCP",
                  local_node=LocalNode("local.example", "example", "127.0.0.1", 3868),
                  peer_node=PeerNode("peer.example", "example", "127.0.0.2", 3868),
                  application_ids=[], watchdog_timeout=30)
wire = DiameterMessage(DiameterHeader(command_code=257, flags=0x80),
                       [DiameterAVP(code=257, flags=0x40, data=b"\x00\x01\x0a")]).dump()
a = DiameterAssociation(conn, DiameterBaseProxy(conn).get_default_messages())
ev = FakeRecvEvent()
ev.chunks = [wire]
ev.assoc = a
a.transport = FakeRecvTransport()
a.transport._recv_data_available = ev
try:
    a.recv_message_from_queue()
    print("worker returned; lock held:", a.lock.locked())
    sys.exit(1 if a.lock.locked() else 0)
except BaseException as e:  # noqa
    print("receive worker ended with %s; association lock still held: %s" % (type(e).__name__, a.lock.locked()))
    sys.exit(1)
