"""KF-C06-peer-gone: a peer disconnect is only noticed in the Open state.  In Closing (our DPR is out, the
peer dies before answering) and in Wait-I-CEA the real state classes keep waiting for ever.
exit 1 = reproduced."""
import sys
from bromelia._internal_utils import Connection, LocalNode, PeerNode
from bromelia.proxy import DiameterBaseProxy
from bromelia.setup import DiameterAssociation
from bromelia.statemachine import Closing, WaitInitiatorCEA


class GoneTransport:
    is_connected = True
    _stop_threads = True          # set by the transport thread when recv() returns b"" / errors
    events = []
    tracking_events_count = 0


conn = Connection(name="x", mode="CLIENT", transport_type="TCP",
                  local_node=LocalNode("local.example", "example", "127.0.0.1", 3868),
                  peer_node=PeerNode("peer.example", "example", "127.0.0.2", 3868),
                  application_ids=[], watchdog_timeout=30)
bad = []
for cls in (Closing, WaitInitiatorCEA):
    a = DiameterAssociation(conn, DiameterBaseProxy(conn).get_default_messages())
    a.transport = GoneTransport()
    st = cls(a)
    for _ in range(50):
        st.run()
    print(cls.__name__, "after 50 ticks with the peer gone ->", st.next_state)
    if st.next_state != "Closed":
        bad.append(cls.__name__)
sys.exit(1 if bad else 0)
