"""KF-C04-fragmentation: a message that reaches the node in two reads is never delivered.
The REAL receive worker (DiameterAssociation.recv_message_from_queue) is run over a transport stand-in that
delivers one Device-Watchdog-Request in two chunks (split inside the AVPs, then inside the header).
exit 1 = reproduced (the message does not come out of the worker, or garbage does)."""
import sys
sys.path.insert(0, "/verif")
from bromelia._internal_utils import Connection, LocalNode, PeerNode
from bromelia.proxy import DiameterBaseProxy
from bromelia.setup import DiameterAssociation
from bromelia.messages import DWR
from contracts.stubs import FakeRecvEvent, FakeRecvTransport

conn = Connection(name="x", mode="SERVER", transport_type="TCP",
                  local_node=LocalNode("local.example", "example", "127.0.0.1", 3868),
                  peer_node=PeerNode("peer.example", "example", "127.0.0.2", 3868),
                  application_ids=[], watchdog_timeout=30)
wire = DWR(origin_host="peer.example", origin_realm="example").dump()
bad = []
for cut in (len(wire) - 8, 12):
    a = DiameterAssociation(conn, DiameterBaseProxy(conn).get_default_messages())
    ev = FakeRecvEvent()
    ev.chunks = [wire[:cut], wire[cut:]]
    ev.assoc = a
    a.transport = FakeRecvTransport()
    a.transport._recv_data_available = ev
    try:
        a.recv_message_from_queue()
        out = []
        while not a._recv_messages.empty():
            out.append(a._recv_messages.get())
        ok = len(out) == 1 and out[0].dump() == wire
        print("split at %3d of %d bytes -> %d message(s) out of the worker, identical to the one sent: %s"
              % (cut, len(wire), len(out), ok))
    except BaseException as e:  # noqa
        ok = False
        print("split at %3d of %d bytes -> worker raised %s" % (cut, len(wire), type(e).__name__))
    if not ok:
        bad.append(cut)
sys.exit(1 if bad else 0)
