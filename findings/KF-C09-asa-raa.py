"""KF-C09-asa-raa: exit 1 while ASA()/RAA() of ietf_rfc6733 still build a 16-byte header."""
import sys
from bromelia.lib.ietf_rfc6733.messages import AbortSessionAnswer, ReAuthAnswer
bad = 0
for cls in (AbortSessionAnswer, ReAuthAnswer):
    m = cls()
    if m.header.application_id is None or len(m.header.dump()) != 20:
        print(cls.__name__, "header bytes:", len(m.header.dump()), "Message Length:", m.header.get_length(), "dump:", len(m.dump()))
        bad += 1
sys.exit(1 if bad else 0)
