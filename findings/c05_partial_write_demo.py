"""Real sockets: a stream larger than the socket buffer is handed to the transport (partial writes), then a
second small one.  The peer must receive exactly stream1 ++ stream2.  exit 1 = bytes duplicated/lost."""
import selectors, socket, sys, threading, time
from bromelia.transport import TcpClient

a, b = socket.socketpair()
a.setblocking(False)
a.setsockopt(socket.SOL_SOCKET, socket.SO_SNDBUF, 4096)
t = TcpClient("127.0.0.1", 3868)
t.sock = a
t.is_connected = True
t.selector.register(a, selectors.EVENT_READ)
t.run()
s1 = bytes((i * 7) % 251 for i in range(600000))
s2 = b"SECOND-STREAM" * 3
got = bytearray()
def reader():
    b.settimeout(3)
    try:
        while len(got) < len(s1) + len(s2) + 100000:
            d = b.recv(65536)
            if not d:
                break
            got.extend(d)
            time.sleep(0.002)
    except socket.timeout:
        pass
th = threading.Thread(target=reader, daemon=True); th.start()
t._set_selector_events_mask("rw", s1)
deadline = time.time() + 20
while t.is_write_mode() and time.time() < deadline:
    time.sleep(0.01)
t._set_selector_events_mask("rw", s2)
th.join(25)
t._stop_threads = True
ok = bytes(got) == s1 + s2
print("sent %d bytes, peer received %d bytes, identical: %s" % (len(s1) + len(s2), len(got), ok))
sys.exit(0 if ok else 1)
