"""KF-C11-update-avp: update_avps() stores two DIFFERENT new objects under the name and in the list."""
import sys
from bromelia.base import DiameterMessage
from bromelia.avps import OriginHostAVP
m = DiameterMessage()
m.append(OriginHostAVP("a"))
m.update_avps({"origin_host": "b"})
if m.origin_host_avp is not m._avps[0]:
    print("name and list hold different objects after update_avps")
    sys.exit(1)
sys.exit(0)
