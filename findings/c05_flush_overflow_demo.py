#!/usr/bin/env python3
"""Reproduction for C05: a backlog larger than the 256 KiB flush window.
Drives the REAL DiameterAssociation.send_message_from_queue with a recording transport (no sockets).
  (a) order: m1 (3/5 window), m2 (3/5 window), m3 (small) queued together must reach the transport as
      m1, m2, m3 -- a message that does not fit must not be moved behind later submissions;
  (b) no starvation: one message larger than the window must still be handed to the transport.
exit 0 = both hold, 1 = a violation (printed), 2 = harness problem."""
import sys, threading, types, warnings
warnings.simplefilter("ignore")
from bromelia.avps import *                                   # noqa
from bromelia.base import DiameterRequest
from bromelia.config import SEND_BUFFER_MAXIMUM_SIZE as W
from bromelia.setup import DiameterAssociation


class RecTransport(object):
    is_connected = True

    def __init__(self):
        self.handed = []
        self.write_mode_on = threading.Event()

    def is_write_mode(self):
        return False

    def _set_selector_events_mask(self, mode, msg=None):
        self.handed.append(msg)


def req(i, size):
    return DiameterRequest(avps=[SessionIdAVP("demo;%d" % i), OriginHostAVP("h.example.com"),
                                 OriginRealmAVP("example.com"), ProxyStateAVP(bytes([0x40 + i]) * size)])


def flush_all(assoc, limit=8):
    n = 0
    while not assoc._send_messages.empty() and n < limit:
        t = threading.Thread(target=assoc.send_message_from_queue, daemon=True)
        t.start(); t.join(20)
        if t.is_alive():
            print("HARNESS: flush did not return"); sys.exit(2)
        n += 1
    return n


bad = []
# (a)
a = DiameterAssociation(types.SimpleNamespace(watchdog_timeout=60), None)
a.transport = RecTransport()
ms = [req(1, W * 3 // 5), req(2, W * 3 // 5), req(3, 64)]
for m in ms:
    a.put_message_into_send_queue(m)
flush_all(a)
got = b"".join(a.transport.handed)
want = b"".join(m.dump() for m in ms)
if got != want:
    order = []
    rest = got
    while rest:
        for i, m in enumerate(ms):
            d = m.dump()
            if rest.startswith(d):
                order.append(i + 1); rest = rest[len(d):]; break
        else:
            order.append("?"); break
    bad.append("(a) submitted m1,m2,m3 (sizes %s); handed to the transport in the order %s"
               % ([len(m.dump()) for m in ms], order))
# (b)
b = DiameterAssociation(types.SimpleNamespace(watchdog_timeout=60), None)
b.transport = RecTransport()
big = req(4, W + 1000)
b.put_message_into_send_queue(big)
n = flush_all(b)
if b"".join(b.transport.handed) != big.dump():
    bad.append("(b) a %d-byte message (window %d) is still queued after %d flushes; %d bytes were handed over"
               % (len(big.dump()), W, n, len(b"".join(b.transport.handed))))
for x in bad:
    print("C05 VIOLATED:", x)
sys.exit(1 if bad else 0)
