"""KF-C11-setitem: msg[i] = avp replaces the list element but neither the name nor the Message Length."""
import sys
from bromelia.base import DiameterMessage
from bromelia.avps import OriginHostAVP
m = DiameterMessage()
m.append(OriginHostAVP("a"))
m[0] = OriginHostAVP("a-much-longer-host-name")
if m.header.get_length() != len(m.dump()) or m.origin_host_avp is not m._avps[0]:
    print("Message Length %d vs %d bytes; name refers to the replaced object: %s" %
          (m.header.get_length(), len(m.dump()), m.origin_host_avp is not m._avps[0]))
    sys.exit(1)
sys.exit(0)
