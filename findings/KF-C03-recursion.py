"""KF-C03-recursion: ~1200-deep nested Failed-AVP makes DiameterAVP.load raise RecursionError
(not one of the library's error types).  exit 1 = still reproduces, 0 = no longer."""
import sys
sys.setrecursionlimit(1000)
from bromelia.base import DiameterAVP
inner = b""
for _ in range(1200):
    n = 8 + len(inner)
    inner = (279).to_bytes(4, "big") + b"\x40" + n.to_bytes(3, "big") + inner
try:
    DiameterAVP.load(inner)
except RecursionError:
    print("RecursionError escaped DiameterAVP.load")
    sys.exit(1)
except BaseException as e:  # noqa
    print("other:", type(e).__name__)
    sys.exit(0)
sys.exit(0)
