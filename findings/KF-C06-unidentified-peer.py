"""KF-C06-unidentified-peer: a server node opens for a CER that carries no Origin-Host at all.
Drives the REAL Closed state with a CER made of five Vendor-Id AVPs (exit 1 = reproduced)."""
import sys
from bromelia._internal_utils import Connection, LocalNode, PeerNode
from bromelia.proxy import DiameterBaseProxy
from bromelia.setup import DiameterAssociation
from bromelia.statemachine import Closed
from bromelia.base import DiameterMessage, DiameterHeader
from bromelia.avps import VendorIdAVP


class FakeTransport:
    is_connected = True
    _stop_threads = False
    events = []
    tracking_events_count = 0

    def is_write_mode(self):
        return False

    def _set_selector_events_mask(self, mode, msg=None):
        self.sent = msg


conn = Connection(name="x", mode="SERVER", transport_type="TCP",
                  local_node=LocalNode("local.example", "example", "127.0.0.1", 3868),
                  peer_node=PeerNode("peer.example", "example", "127.0.0.2", 3868),
                  application_ids=[], watchdog_timeout=30)
a = DiameterAssociation(conn, DiameterBaseProxy(conn).get_default_messages())
a.transport = FakeTransport()
cer = DiameterMessage(DiameterHeader(command_code=257, flags=0x80), [VendorIdAVP(10415) for _ in range(5)])
a._recv_messages.put(DiameterMessage.load(cer.dump())[0])
st = Closed(a)
st.run()
print("CER without Origin-Host ->", st.next_state, "(state_is_active=%s)" % a.state_is_active)
sys.exit(1 if st.next_state == "Open" else 0)
