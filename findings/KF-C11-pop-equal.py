"""KF-C11-pop-equal: pop(name) removes the first listed AVP with an equal ENCODING, not the named object."""
import sys
from bromelia.base import DiameterMessage
from bromelia.avps import OriginHostAVP
m = DiameterMessage()
a, b = OriginHostAVP("a"), OriginHostAVP("a")
m.append(a); m.append(b)
m.pop("origin_host_avp__1")                       # names b
left = list(m._avps)
if any(x is b for x in left) and not any(x is a for x in left):
    print("named AVP b is still listed; the earlier equal AVP a was removed; name origin_host_avp now refers to an unlisted AVP")
    sys.exit(1)
sys.exit(0)
