"""KF-C11-suffix-reuse: after popping a middle '<name>__k' key, append() computes a suffix that is still in use."""
import sys
from bromelia.base import DiameterMessage, DiameterAVP
m = DiameterMessage()
u = [DiameterAVP(code=60001, data=b"x") for _ in range(4)]
m.append(u[0]); m.append(u[1]); m.append(u[2])     # unknown_avp, unknown_avp__1, unknown_avp__2
m.pop("unknown_avp__1")
m.append(u[3])                                       # generated key unknown_avp__2 again -> overwrites u[2]'s name
names = {k: v for k, v in m.__dict__.items() if "_avp" in k and k != "_avps"}
orphans = [x for x in m._avps if not any(v is x for v in names.values())]
if orphans:
    print("%d listed AVP(s) without a name after pop + append" % len(orphans))
    sys.exit(1)
sys.exit(0)
