"""Native reproduction of two C06 defects of Open.run (exit 1 = reproduced, 0 = not reproduced).
  stop:        local stop while an inbound message is queued -> a DPR is emitted on every tick
  misaddressed: a request carrying another node's Destination-Host raises out of Open.run (the state
               machine thread has no handler: it stops ticking)
usage: python c06_open_tick_demo.py stop|misaddressed
"""
import sys
from bromelia._internal_utils import Connection, LocalNode, PeerNode
from bromelia.proxy import DiameterBaseProxy
from bromelia.setup import DiameterAssociation
from bromelia.statemachine import Open
from bromelia.messages import DWR
from bromelia.base import DiameterMessage, DiameterHeader
from bromelia.avps import DestinationHostAVP, OriginHostAVP, OriginRealmAVP, SessionIdAVP


class FakeTransport:
    is_connected = True
    _stop_threads = False
    events = [("busy", 1)]
    tracking_events_count = 0

    def __init__(self):
        self.streams = []

    def is_write_mode(self):
        return False

    def _set_selector_events_mask(self, mode, msg=None):
        self.streams.append(msg)


conn = Connection(name="x", mode="CLIENT", transport_type="TCP",
                  local_node=LocalNode("local.example", "example", "127.0.0.1", 3868),
                  peer_node=PeerNode("peer.example", "example", "127.0.0.2", 3868),
                  application_ids=[], watchdog_timeout=30)
a = DiameterAssociation(conn, DiameterBaseProxy(conn).get_default_messages())
a.transport = FakeTransport()
a.state_is_active = True
st = Open(a)

if sys.argv[1] == "stop":
    for i in range(3):
        a._recv_messages.put(DWR(origin_host="peer.example", origin_realm="example"))
    a.state_is_active = False          # Diameter.close()
    states, dprs = [], 0
    for tick in range(3):
        st.run()
        states.append(st.next_state)
        if st.next_state != "Open":
            break          # the machine leaves the Open state object here
    dprs = sum(s.count(a.base.dpr.dump()[4:12]) for s in a.transport.streams if s)
    print("next_state after each tick:", states, " DPRs written:", dprs)
    sys.exit(1 if dprs != 1 or states[0] != "Closing" else 0)

if sys.argv[1] == "misaddressed":
    h = DiameterHeader(application_id=16777264, command_code=268, flags=0xc0)
    m = DiameterMessage(h, [SessionIdAVP("s;1;2"), OriginHostAVP("peer.example"), OriginRealmAVP("example"),
                            DestinationHostAVP("someone.else")])
    a._recv_messages.put(m)
    try:
        st.run()
    except BaseException as e:  # noqa
        print("Open.run raised", type(e).__name__, e)
        sys.exit(1)
    print("Open.run returned; next_state", st.next_state, "delivered", a.postprocess_recv_messages.qsize())
    sys.exit(0)
