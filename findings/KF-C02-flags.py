"""KF-C02-flags: wire flags of a dictionary AVP are replaced by the class defaults on decode.
exit 1 = still reproduces."""
import sys
from bromelia.base import DiameterAVP
wire = bytes.fromhex("00000108" "00" "00000c") + b"host"      # Origin-Host, flags 0x00 (M bit clear)
avps = DiameterAVP.load(wire)
out = avps[0].dump()
if out != wire:
    print("re-encoded", out.hex(), "!=", wire.hex())
    sys.exit(1)
sys.exit(0)
