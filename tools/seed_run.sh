#!/bin/sh
# usage: seed_run.sh <seed id> <prop> [<prop>...]  -- applies seeded/<id>/patch.diff to a scratch worktree of
# /repo's HEAD (outside /repo and /verif), runs the checks against it (REPO=...), removes the worktree.
id="$1"; shift
cd /verif
wt="/tmp/seedwt_$id"
git -C /repo worktree remove --force "$wt" 2>/dev/null
git -C /repo worktree add --detach "$wt" HEAD >/dev/null 2>&1 || { echo "cannot create worktree"; exit 9; }
git -C "$wt" apply "/verif/seeded/$id/patch.diff" || { echo "patch does not apply"; git -C /repo worktree remove --force "$wt"; exit 9; }
for p in "$@"; do
  REPO="$wt" ./check "$p" --no-evidence > "/tmp/seedrun_${id}_$p.log" 2>&1; rc=$?
  echo "== seed $id  check $p  exit $rc"; grep -E "^VIOLATION|^UNDECIDED|^CHECKER|obligations" "/tmp/seedrun_${id}_$p.log" | cut -c1-260 | head -8
done
git -C /repo worktree remove --force "$wt"
