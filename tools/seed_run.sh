#!/bin/sh
# usage: seed_run.sh <seed id> <prop> [<prop>...]  -- applies seeded/<id>/patch.diff to /repo, runs the
# checks, and reverts /repo straight afterwards.
id="$1"; shift
cd /verif
git -C /repo diff --quiet || { echo "/repo not clean"; exit 9; }
git -C /repo apply "/verif/seeded/$id/patch.diff" || { echo "patch does not apply"; exit 9; }
for p in "$@"; do
  ./check "$p" --no-evidence > "/tmp/seedrun_${id}_$p.log" 2>&1; rc=$?
  echo "== seed $id  check $p  exit $rc"; grep -E "^VIOLATION|^UNDECIDED|^CHECKER|obligations" "/tmp/seedrun_${id}_$p.log" | cut -c1-260 | head -8
done
git -C /repo checkout -- .
