#!/usr/bin/env python3
"""Freeze the AVP dictionary of a tree into reference/avp_dictionary.json (run ONCE against the
pinned tree; the file is then the 'vendored reference dictionary' the C10 table obligations compare
the tree under check with).  usage: PYTHONPATH=<tree> python freeze_dictionary.py <out.json>"""
import ast, inspect, json, sys, textwrap
from bromelia.base import DiameterAVP
import bromelia.types as T
out = {}
for c in DiameterAVP.__subclasses__():
    base = [b.__name__ for b in c.__mro__ if b.__module__ == "bromelia.types" and b.__name__ != "BaseDataType"][0]
    src = textwrap.dedent(inspect.getsource(c.__init__))
    flags = 0
    for n in ast.walk(ast.parse(src)):
        if isinstance(n, ast.Call) and isinstance(n.func, ast.Attribute) and n.args and \
                isinstance(n.args[-1], ast.Constant) and n.args[-1].value is True:
            flags |= {"set_mandatory_bit": 0x40, "set_vendor_id_bit": 0x80, "set_protected_bit": 0x20}.get(n.func.attr, 0)
    out[c.__module__ + "." + c.__name__] = {
        "class": c.__name__, "code": int.from_bytes(c.code, "big"),
        "vendor": None if c.vendor_id is None else int.from_bytes(c.vendor_id, "big"),
        "type": base[:-4], "default_flags": flags}
json.dump(out, open(sys.argv[1], "w"), indent=1, sort_keys=True)
print(len(out), "classes")
