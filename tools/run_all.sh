#!/bin/sh
# runs every claimed quick check and validates MANIFEST + evidence against the schemas
cd /verif
for p in $(python3 -c "import json;print(' '.join(c['property_id'] for c in json.load(open('MANIFEST.json'))['checks']))"); do
  /usr/bin/time -f "  ($p took %es)" ./check $p --tier ${TIER:-quick} ${EXTRA:-} | tail -3
done
.venv/bin/python - <<'PY'
import json, jsonschema, glob
m = json.load(open('MANIFEST.json'))
jsonschema.validate(m, json.load(open('/root/.vp/MANIFEST.schema.json')))
es = json.load(open('/root/.vp/EVIDENCE.schema.json'))
for c in m['checks']:
    jsonschema.validate(json.load(open(c['evidence_file'])), es)
print('manifest + %d evidence files valid' % len(m['checks']))
PY
