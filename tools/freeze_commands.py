#!/usr/bin/env python3
"""Freeze the typed command classes of a tree into reference/commands.json (run once on the pinned
tree): command code, Application-ID, request/answer, table keys in order, constructor parameter order."""
import importlib, inspect, json, pkgutil, sys
import bromelia.lib as L
from bromelia.base import DiameterMessage
out = {}
for m in pkgutil.iter_modules(L.__path__):
    mod = importlib.import_module("bromelia.lib.%s.messages" % m.name)
    for n, c in vars(mod).items():
        if inspect.isclass(c) and issubclass(c, DiameterMessage) and c.__module__ == mod.__name__:
            import ast, textwrap
            code = app = None
            tree = ast.parse(textwrap.dedent(inspect.getsource(c.__init__)))
            for node in ast.walk(tree):
                if isinstance(node, ast.Call) and isinstance(node.func, ast.Attribute) and node.func.attr == "__init__":
                    for kw in node.keywords:
                        try:
                            val = eval(compile(ast.Expression(kw.value), "<k>", "eval"), vars(mod))
                        except NameError:
                            val = "param:" + ast.unparse(kw.value)
                        if kw.arg == "command_code":
                            code = int.from_bytes(val, "big") if isinstance(val, bytes) else val
                        if kw.arg == "application_id":
                            app = None if val is None else (int.from_bytes(val, "big") if isinstance(val, bytes) else val)
                            app = "none" if val is None else app
            out[c.__module__ + "." + c.__name__] = {
                "command_code": code, "application_id": app, "request": n.endswith("Request"),
                "mandatory": {k: v.__name__ for k, v in c.mandatory.items()},
                "optionals": {k: v.__name__ for k, v in c.optionals.items()},
                "params": [p for p in inspect.signature(c.__init__).parameters if p not in ("self", "kwargs")]}
json.dump(out, open(sys.argv[1], "w"), indent=1, sort_keys=True)
print(len(out))
