#!/bin/sh
# runs every seeded change against the check of its property (plus the checks listed in seeded/CHECKS.txt for seeds
# that are also reported by another property's check); one summary line per (seed, check).
# usage: seed_matrix.sh [parallelism] [seed ids...]      (VERIF_JOBS bounds the processes of each check)
cd /verif
P=${1:-2}; [ $# -gt 0 ] && shift
ids="$@"; [ -z "$ids" ] && ids=$(ls -d seeded/*/ | xargs -n1 basename)
for id in $ids; do echo $id; done | xargs -P $P -n1 sh tools/seed_one.sh
