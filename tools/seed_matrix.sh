#!/bin/sh
# runs every seeded change against the check of its property (and prints one summary line per seed)
cd /verif
for d in seeded/*/; do
  id=$(basename $d); prop=${id%-*}
  out=$(./tools/seed_run.sh $id $prop 2>&1)
  rc=$(echo "$out" | sed -n 's/^== seed .* exit \([0-9]*\)$/\1/p' | head -1)
  nv=$(echo "$out" | grep -c '^VIOLATION')
  nr=$(echo "$out" | grep '^VIOLATION' | grep -vc 'no-failing-input-found')
  first=$(echo "$out" | grep '^VIOLATION' | head -1 | sed 's/.*obligation=//' | cut -c1-110)
  echo "$id exit=$rc violations=$nv replayed=$nr first=$first"
done
