#!/usr/bin/env python3
"""Confirm a seeded change independently and store it under /verif/seeded/<id>/.
usage: seed_confirm.py <dir with patch.diff demo.py meta.json> <seed id e.g. C01-A>
Checks in a scratch worktree of /repo HEAD (removed afterwards): demo exits 0 on the clean tree,
non-zero with the patch; the pinned baseline still passes with the patch."""
import json, os, shutil, subprocess, sys, tempfile, time
src, sid = sys.argv[1], sys.argv[2]
V = os.path.dirname(os.path.dirname(os.path.abspath(__file__)))
wt = tempfile.mkdtemp(prefix="seedchk_", dir="/tmp")
os.rmdir(wt)
def sh(cmd, **kw):
    return subprocess.run(cmd, shell=True, capture_output=True, text=True, **kw)
rec = {"seed": sid, "confirmed_at": time.strftime("%Y-%m-%dT%H:%M:%SZ", time.gmtime()), "ran": []}
try:
    head = sh("git -C /repo rev-parse --short HEAD").stdout.strip()
    rec["repo_head"] = head
    r = sh("git -C /repo worktree add -q --detach %s HEAD" % wt); assert r.returncode == 0, r.stderr
    env = dict(os.environ, PYTHONPATH=wt, PYTHONDONTWRITEBYTECODE="1")
    demo = os.path.join(src, "demo.py")
    r1 = subprocess.run(["timeout", "300", "/venv/bin/python", demo], env=env, capture_output=True, text=True, cwd=wt)
    rec["ran"].append({"cmd": "demo on clean tree", "exit": r1.returncode})
    r = sh("git -C %s apply %s" % (wt, os.path.join(src, "patch.diff")))
    rec["ran"].append({"cmd": "git apply patch.diff", "exit": r.returncode, "err": r.stderr[-300:]})
    r2 = subprocess.run(["timeout", "300", "/venv/bin/python", demo], env=env, capture_output=True, text=True, cwd=wt)
    rec["ran"].append({"cmd": "demo on changed tree", "exit": r2.returncode, "tail": (r2.stdout + r2.stderr)[-600:]})
    r3 = sh("python3 %s/tools/baseline.py %s" % (V, wt))
    rec["ran"].append({"cmd": "pinned baseline on changed tree", "exit": r3.returncode, "out": r3.stdout.strip()[-200:]})
    ok = r1.returncode == 0 and r.returncode == 0 and r2.returncode != 0 and r3.returncode == 0
    rec["confirmed"] = ok
finally:
    sh("git -C /repo worktree remove --force %s" % wt)
    shutil.rmtree(wt, ignore_errors=True)
dst = os.path.join(V, "seeded", sid)
if rec.get("confirmed"):
    os.makedirs(dst, exist_ok=True)
    shutil.copy(os.path.join(src, "patch.diff"), dst)
    shutil.copy(os.path.join(src, "demo.py"), dst)
    meta = json.load(open(os.path.join(src, "meta.json")))
    meta["independent_confirmation"] = rec
    json.dump(meta, open(os.path.join(dst, "meta.json"), "w"), indent=1)
print(json.dumps(rec, indent=1))
sys.exit(0 if rec.get("confirmed") else 1)
