#!/usr/bin/env python3
"""Run the repository's pinned baseline (guard OFF) and compare with /root/.vp/BASELINE.json.
exit 0 iff every stable_pass test still passes."""
import json, os, subprocess, sys, tempfile
import xml.etree.ElementTree as ET
repo = sys.argv[1] if len(sys.argv) > 1 else "/repo"
base = json.load(open("/root/.vp/BASELINE.json"))
fd, xml = tempfile.mkstemp(suffix=".xml"); os.close(fd)
env = dict(os.environ); env.pop("HEIMIRICMR_BROMELIA_VERIF", None)
# private network namespace: concurrent suite runs on one host fight over TCP ports otherwise
NS = ["unshare", "-n", "sh", "-c", 'ip link set lo up; exec "$@"', "sh"] if subprocess.run(
    ["unshare", "-n", "true"], capture_output=True).returncode == 0 else []
subprocess.run(NS + ["/venv/bin/python", "-m", "pytest", "-q", "-p", "no:cacheprovider", "--timeout=900",
                "--continue-on-collection-errors", "--junitxml=" + xml], cwd=repo, env=env,
               stdout=subprocess.DEVNULL, stderr=subprocess.DEVNULL)
passed = set()
for tc in ET.parse(xml).getroot().iter("testcase"):
    if not any(ch.tag in ("failure", "error", "skipped") for ch in tc):
        passed.add(tc.get("classname") + "::" + tc.get("name"))
os.unlink(xml)
missing = [t for t in base["stable_pass"] if t not in passed]
print("stable_pass: %d, passing now: %d, missing: %d" % (len(base["stable_pass"]), len(passed), len(missing)))
for m in missing[:20]:
    print("  MISSING", m)
sys.exit(1 if missing else 0)
