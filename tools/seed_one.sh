#!/bin/sh
# one seeded change against its checks: prints "<id> check=<Cxx> exit=.. violations=.. replayed=.. first=.."
cd /verif
id=$1; prop=${id%-*}
props=$(grep "^$id " seeded/CHECKS.txt 2>/dev/null | cut -d' ' -f2-); [ -z "$props" ] && props=$prop
for p in $props; do
  out=$(./tools/seed_run.sh $id $p 2>&1)
  rc=$(echo "$out" | sed -n 's/^== seed .* exit \([0-9]*\)$/\1/p' | head -1)
  f=/tmp/seedrun_${id}_$p.log
  nv=$(grep -c '^VIOLATION' $f 2>/dev/null)
  nr=$(grep '^VIOLATION' $f 2>/dev/null | grep -vc 'no-failing-input-found')
  first=$(grep '^VIOLATION' $f 2>/dev/null | head -1 | sed 's/.*obligation=//' | cut -c1-120)
  echo "$id check=$p exit=${rc:-?} violations=$nv replayed=$nr first=$first"
done
