"""debug: run one contract in-process with per-query timing.  usage: dbg.py <label-substring>"""
import sys, time, os
sys.path.insert(0, "/verif")
from pyvc import driver, verify, engine, solve
import z3
api = driver.load_contracts()
eng = driver.make_engine(api)
sel = [c for c in api.REGISTRY if sys.argv[1] in c.label]
c = sel[0]
print("contract", c.label)
orig = engine.Ctx._check
def timed(self, *extra):
    t = time.time(); r = orig(self, *extra); dt = time.time() - t
    if dt > 0.5: print("  slow branch check %.2fs -> %s ; pc size %d ; extra %s" % (dt, r, len(self.pc), str(extra)[:200]))
    return r
engine.Ctx._check = timed
od = solve.discharge
def td(ctx, name, goal, info=None):
    t = time.time(); ob = od(ctx, name, goal, info); dt = time.time() - t
    if dt > 2 and not os.path.exists("/tmp/slow_vc.smt2"):
        open("/tmp/slow_vc.smt2", "w").write(solve.smt2_for(ctx.pc, z3.Not(goal)))
    if dt > 0.5 or len(sys.argv) > 2: print("  VC %-60s %-8s %.2fs %s" % (name, ob.status, dt, ob.backend))
    return ob
solve.discharge = td
fn = c.target_obj
t = time.time()
r = verify.run_contract(eng, c)
print("paths", r.paths, "time %.1f" % (time.time() - t))
for n, o in sorted(r.obligs.items()):
    print(" ", o["status"], n, o["vcs"], "%.2f" % o["time"], o["backends"], o["notes"][:2])
for n, o in sorted(r.controls.items()):
    print("  control", o["status"], n)
