import sys, threading, datetime
sys.dont_write_bytecode = True
from bromelia.utils import *
from bromelia.base import *
from bromelia.avps import *
from bromelia.constants import *
from bromelia.messages import *
import bromelia._internal_utils as iu
print("1 tbcd:", encode_to_tbcd("12"), decode_from_tbcd("21"), encode_to_tbcd("123"), decode_from_tbcd("21f3"), repr(encode_to_tbcd("")))
a = DiameterAnswer(command_code=316, application_id=DIAMETER_APPLICATION_S6a, avps=[ResultCodeAVP(DIAMETER_INVALID_HDR_BITS)])
b = DiameterAnswer(command_code=316, application_id=DIAMETER_APPLICATION_S6a, avps=[ResultCodeAVP(DIAMETER_UNABLE_TO_COMPLY)])
print("2 preds: 3008->", is_3xxx_failure(a), " 5012->", is_5xxx_failure(b), " int:", is_result_code_family_3xxx(3008), is_result_code_family_5xxx(5012))
# C09 ASA
asa = ASA(); print("C09 ASA header len:", len(asa.header.dump()), asa.header.flags, asa.header.application_id, 'msg len field', asa.header.get_length(), 'real', len(asa.dump()))
# C11
m = DiameterMessage(avps=[OriginHostAVP("a"), OriginHostAVP("a"), OriginRealmAVP("r")])
x, y = m.avps[0], m.avps[1]
m.pop("origin_host_avp__1")
print("C11 pop second of equal: list keeps first object?", m.avps[0] is x, "kept second instead?", m.avps[0] is y, "named:", m.origin_host_avp is x)
m2 = DiameterMessage(avps=[OriginHostAVP("a"), OriginHostAVP("b"), OriginHostAVP("c")])
m2.pop("origin_host_avp__1"); m2.append(OriginHostAVP("d"))
named = [v for k,v in m2.__dict__.items() if "_avp" in k and k != "_avps"]
print("C11 pop+append: listed", len(m2.avps), "named", len(named), "orphan listed:", [a.data for a in m2.avps if not any(a is n for n in named)])
m3 = DiameterMessage(avps=[OriginHostAVP("a")]); m3[0] = OriginHostAVP("longer-host-name")
print("C11 setitem: len field", m3.header.get_length(), "real", len(m3.dump()), "name is list:", m3.origin_host_avp is m3.avps[0])
m4 = DiameterMessage(avps=[OriginHostAVP("a")]); m4.update_avps({"origin_host": "zz"})
print("C11 update_avp: same object?", m4.origin_host_avp is m4.avps[0])
m5 = DiameterMessage(avps=[SessionIdAVP("h")]); m5.update_avps({"session_id": "h2"})
print("C11 update session: attr", m5.session_id_avp.data, "list", m5.avps[0].data)
# C12
from bromelia.bromelia import decorate_answer
req = DiameterRequest(command_code=316, application_id=DIAMETER_APPLICATION_S6a, avps=[SessionIdAVP("h")])
ans = DiameterAnswer(command_code=316, application_id=DIAMETER_APPLICATION_S6a, avps=[SessionIdAVP("x"), ResultCodeAVP(DIAMETER_AVP_UNSUPPORTED)])
ans.header.set_error_bit(True)
try: decorate_answer(ans, req); print("C12 ok")
except BaseException as e: print("C12 E already set:", type(e).__name__, e)
ans = DiameterAnswer(command_code=316, application_id=DIAMETER_APPLICATION_S6a, avps=[SessionIdAVP("x"), ResultCodeAVP(DIAMETER_UNABLE_TO_COMPLY)])
r = decorate_answer(ans, req); print("C12 5012 E flag:", r.header.is_error())
# C16
from bromelia._internal_utils import SessionHandler
ma = DiameterMessage(avps=[SessionIdAVP("h1"), OriginHostAVP("h1")]); mb = DiameterMessage(avps=[SessionIdAVP("h1"), OriginHostAVP("h1")])
ma.update_avps({"origin_host": "new"}); mb.update_avps({"origin_host": "new2"}); ma2 = DiameterMessage(avps=[SessionIdAVP("new2"), OriginHostAVP("h1")])
try:
    mb.update_avps({"origin_host": "new"})
except BaseException as e: print("C11 second bulk update raises:", type(e).__name__, e)
# C19 APPLICATIONS ill-typed
cfg = {"MODE":"SERVER","TRANSPORT_TYPE":"TCP","APPLICATIONS":"abc", "LOCAL_NODE_HOSTNAME":"srv.x","LOCAL_NODE_REALM":"x","LOCAL_NODE_IP_ADDRESS":"127.0.0.1","LOCAL_NODE_PORT":3868,
 "PEER_NODE_HOSTNAME":"peer.y","PEER_NODE_REALM":"y","PEER_NODE_IP_ADDRESS":"127.0.0.2","PEER_NODE_PORT":3868,"WATCHDOG_TIMEOUT":30}
try: iu._convert_config_to_connection_obj(cfg)
except BaseException as e: print("C19 apps str:", type(e).__name__)
cfg["APPLICATIONS"]=[]; cfg["LOCAL_NODE_IP_ADDRESS"]=16909060
print("C19 ip int accepted:", iu._convert_config_to_connection_obj(cfg).local_node.ip_address)
# locals() order
def f(a, b=2, *, c=3, **kwargs):
    return list(locals().keys())
print("locals order:", f(1, z=9))
def g(self, b=None, a=None, **kwargs):
    if not a: pass
    return list(locals().keys())
print("locals order2:", g(0))
