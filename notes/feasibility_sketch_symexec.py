"""Feasibility sketch (design phase, NOT the framework): symbolically execute the REAL ASTs of
utils.is_3xxx_failure, utils.is_result_code_family_3xxx and types.Unsigned32Type.is_bit_set and
discharge/refute their C17/C20 postconditions with z3. Path-splitting, meta-level typing."""
import ast, sys, time, inspect
sys.dont_write_bytecode = True
import z3
import bromelia.utils as U, bromelia.types as T, bromelia.constants as K
from bromelia.exceptions import DiameterTypeError

def get_fn(path, qual):
    tree = ast.parse(open(path).read())
    parts = qual.split('.'); body = tree.body
    for p in parts:
        node = next(n for n in body if isinstance(n, (ast.FunctionDef, ast.ClassDef)) and n.name == p)
        body = node.body
    return node

class SBytes:                 # fixed, concrete length; elements are BV8 terms
    def __init__(self, elems): self.e = list(elems)
class SInt:
    def __init__(self, t): self.t = t           # z3 Int
class SBV:                    # an int known to live in k bits
    def __init__(self, t): self.t = t
class Raise(Exception):
    def __init__(self, cls): self.cls = cls
class Ret(Exception):
    def __init__(self, v): self.v = v

class Path:
    def __init__(self, pc): self.pc = list(pc)
class Exec:
    def __init__(self, glob): self.glob = glob; self.results = []
    def feasible(self, pc):
        s = z3.Solver(); s.add(*pc); return s.check() != z3.unsat
    def run(self, fn, env, pc):
        # explores all paths by re-execution with a decision script (DFS)
        self.work = [[]]
        while self.work:
            self.script = self.work.pop(); self.taken = []; self.pc = list(pc)
            try:
                self.block(fn.body, dict(env)); out = ('ret', None)
            except Ret as r: out = ('ret', r.v)
            except Raise as r: out = ('raise', r.cls)
            self.results.append((list(self.pc), out))
    def decide(self, cond):          # cond: z3 Bool
        i = len(self.taken)
        if i < len(self.script): choice = self.script[i]
        else:
            t_ok = self.feasible(self.pc + [cond]); f_ok = self.feasible(self.pc + [z3.Not(cond)])
            if t_ok and f_ok: self.work.append(self.taken + [False]); choice = True
            else: choice = t_ok
        self.taken.append(choice); self.pc.append(cond if choice else z3.Not(cond)); return choice
    def truth(self, v):
        if isinstance(v, bool): return v
        if v is None: return False
        if isinstance(v, z3.BoolRef): return self.decide(v)
        if isinstance(v, SInt): return self.decide(v.t != 0)
        if isinstance(v, SBV): return self.decide(v.t != 0)
        if isinstance(v, (bytes, str, list)): return len(v) > 0
        if isinstance(v, SBytes): return len(v.e) > 0
        return True
    def block(self, stmts, env):
        for s in stmts: self.stmt(s, env)
    def stmt(self, s, env):
        if isinstance(s, ast.Expr): 
            if isinstance(s.value, ast.Constant): return
            self.ev(s.value, env)
        elif isinstance(s, ast.Assign): env[s.targets[0].id] = self.ev(s.value, env)
        elif isinstance(s, ast.Return): raise Ret(self.ev(s.value, env) if s.value else None)
        elif isinstance(s, ast.If):
            self.block(s.body if self.truth(self.ev(s.test, env)) else s.orelse, env)
        elif isinstance(s, ast.Raise):
            raise Raise(self.glob[s.exc.func.id])
        else: raise NotImplementedError(ast.dump(s)[:80])
    def ev(self, e, env):
        if isinstance(e, ast.Constant): return e.value
        if isinstance(e, ast.Name): return env[e.id] if e.id in env else self.glob[e.id]
        if isinstance(e, ast.Attribute):
            o = self.ev(e.value, env); return o[e.attr] if isinstance(o, dict) else getattr(o, e.attr)
        if isinstance(e, ast.Call):
            if isinstance(e.func, ast.Attribute) and e.func.attr == 'has_avp':
                o = self.ev(e.func.value, env); return self.ev(e.args[0], env) in o['__names__']   # contract of has_avp
            f = e.func.id
            args = [self.ev(a, env) for a in e.args]
            if f == 'zip': return list(zip(self.seq(args[0]), self.seq(args[1])))
            if f == 'bytes': return SBytes(args[0])
            raise NotImplementedError(f)
        if isinstance(e, ast.ListComp):
            g = e.generators[0]; out = []
            for item in self.ev(g.iter, env):
                env2 = dict(env)
                for t, v in zip(g.target.elts, item): env2[t.id] = v
                out.append(self.ev(e.elt, env2))
            return out
        if isinstance(e, ast.BinOp):
            l, r = self.ev(e.left, env), self.ev(e.right, env)
            return self.binop(e.op, l, r)
        if isinstance(e, ast.Subscript):
            o = self.ev(e.value, env); i = self.ev(e.slice, env); return self.seq(o)[i]
        if isinstance(e, ast.BoolOp):
            vals = e.values
            if isinstance(e.op, ast.And):
                for v in vals:
                    r = self.ev(v, env)
                    if not self.truth(r): return False
                return True
        if isinstance(e, ast.Compare):
            left = self.ev(e.left, env); res = None
            for op, rhs in zip(e.ops, e.comparators):
                r = self.ev(rhs, env); c = self.cmp(op, left, r)
                res = c if res is None else z3.And(res, c); left = r
            return res
        raise NotImplementedError(ast.dump(e)[:80])
    def seq(self, v):
        if isinstance(v, bytes): return [z3.BitVecVal(b, 8) for b in v]
        if isinstance(v, SBytes): return v.e
        return v
    def asint(self, v):
        if isinstance(v, int): return z3.IntVal(v)
        if isinstance(v, SInt): return v.t
        raise NotImplementedError
    def binop(self, op, l, r):
        if isinstance(op, ast.BitAnd):
            if isinstance(l, z3.BitVecRef) and isinstance(r, z3.BitVecRef): return l & r
            if isinstance(l, z3.BitVecRef) and isinstance(r, SBV): return z3.ZeroExt(24, l) & r.t if r.t.size()==32 else l & r.t
        if isinstance(op, ast.Pow) and l == 2:            # 2 ** k with k symbolic small
            k = r.t if isinstance(r, SBV) else z3.BitVecVal(r, 32)
            return SBV(z3.BitVecVal(1, 32) << k)
        if isinstance(op, ast.Mod) and isinstance(l, SBV): return SBV(z3.URem(l.t, z3.BitVecVal(r, 32)))
        raise NotImplementedError((op, l, r))
    def cmp(self, op, l, r):
        if isinstance(l, SBytes) or isinstance(r, SBytes):
            a, b = self.seq(l), self.seq(r)
            assert isinstance(op, ast.Eq)
            return z3.And(*[x == y for x, y in zip(a, b)]) if len(a) == len(b) else z3.BoolVal(False)
        if isinstance(l, SBV) or isinstance(r, SBV) or isinstance(l, z3.BitVecRef):
            lt = l.t if isinstance(l, SBV) else (z3.BitVecVal(l, 32) if isinstance(l, int) else l)
            rt = r.t if isinstance(r, SBV) else (z3.BitVecVal(r, lt.size()) if isinstance(r, int) else r)
            return {ast.NotEq: lt != rt, ast.Eq: lt == rt, ast.LtE: z3.ULE(lt, rt), ast.Lt: z3.ULT(lt, rt)}[type(op)]
        lt, rt = self.asint(l), self.asint(r)
        return {ast.GtE: lt >= rt, ast.Lt: lt < rt, ast.LtE: lt <= rt, ast.Gt: lt > rt, ast.Eq: lt == rt}[type(op)]

def check(name, vcs):
    t = time.time(); bad = None
    for pc, goal in vcs:
        s = z3.Solver(); s.add(*pc); s.add(z3.Not(goal))
        if s.check() == z3.sat: bad = s.model(); break
    print(f"{name}: {'REFUTED ' + str(bad) if bad is not None else 'valid'}  ({len(vcs)} paths, {time.time()-t:.2f}s)")
    return bad

# ---- C17 integer predicate, all integers
fn = get_fn(U.__file__, 'is_result_code_family_3xxx'); n = z3.Int('n')
ex = Exec(vars(U)); ex.run(fn, {'result_code': SInt(n)}, [n % 1000 != 0])
check("C17 is_result_code_family_3xxx == (n//1000==3)", [(pc, (out[1] is True) == (n / 1000 == 3) if isinstance(out[1], bool) else out[1] == (n/1000==3)) for pc, out in ex.results])

# ---- C17 answer predicate, all 32-bit codes
fn = get_fn(U.__file__, 'is_3xxx_failure'); cb = [z3.BitVec(f'c{i}', 8) for i in range(4)]
word = z3.Concat(*cb); nn = z3.BV2Int(word)
answer = {'__names__': {'result_code_avp'}, 'result_code_avp': {'data': SBytes(cb)}}
ex = Exec(vars(U)); ex.run(fn, {'answer': answer}, [nn % 1000 != 0])
m = check("C17 is_3xxx_failure == (code//1000==3)", [(pc, out[1] == (nn / 1000 == 3)) for pc, out in ex.results])
if m is not None:
    code = bytes(m.eval(b, model_completion=True).as_long() for b in cb)
    from bromelia.base import DiameterAnswer; from bromelia.avps import ResultCodeAVP
    real = U.is_3xxx_failure(DiameterAnswer(avps=[ResultCodeAVP(code)]))
    print("   replay on real code: code", int.from_bytes(code, 'big'), "->", real, "; spec says", int.from_bytes(code,'big')//1000 == 3)

# ---- C20 is_bit_set, all words x all int indices 0..31 (and out of range raises)
fn = get_fn(T.__file__, 'Unsigned32Type.is_bit_set'); db = [z3.BitVec(f'd{i}', 8) for i in range(4)]
w = z3.Concat(*db); bit = z3.BitVec('bit', 32)
ex = Exec({**vars(T), 'DiameterTypeError': DiameterTypeError}); ex.run(fn, {'self': {'data': SBytes(db)}, 'bit': SBV(bit)}, [])
vcs = []
for pc, out in ex.results:
    if out[0] == 'raise': vcs.append((pc, z3.And(out[1] is DiameterTypeError, z3.UGE(bit, 32))))
    else: vcs.append((pc, z3.And(z3.ULT(bit, 32), out[1] == (((w >> bit) & 1) == 1))))
check("C20 is_bit_set == bit of big-endian word, else DiameterTypeError", vcs)
