import sys, threading, os
sys.dont_write_bytecode = True
from bromelia.base import *
from bromelia.avps import *
from bromelia.constants import *
import bromelia.bromelia as BB
from bromelia.config import *
# ---- C14: answer handled between enqueue and registration
class W:   # in-process worker reusing the real Worker methods
    name = "w"
    def __init__(s, on_enqueue): s.pending_answers = {}; s.sent=[]; s.on_enqueue=on_enqueue
    def is_running(s): return True
    def set_outgoing_message(s, msg): s.sent.append(msg); s.on_enqueue(msg)
    is_pending_answer = BB.Worker.is_pending_answer; get_pending_answer = BB.Worker.get_pending_answer
    insert_pending_answer = BB.Worker.insert_pending_answer; remove_pending_answer = BB.Worker.remove_pending_answer
b = object.__new__(BB.Bromelia)
b.send_threshold = threading.Barrier(parties=SEND_THRESHOLD); b.answer_threshold = threading.Barrier(parties=ANSWER_THRESHOLD)
req = DiameterRequest(command_code=316, application_id=DIAMETER_APPLICATION_S6a)
ans = DiameterAnswer(header=req.header)
def deliver_now(msg):           # the answer arrives immediately after the request is queued
    b.handler_pending_answers(ans)
w = W(deliver_now); b.associations = {DIAMETER_APPLICATION_S6a: w}
out = []
t = threading.Thread(target=lambda: out.append(b.send_message(req)), daemon=True); t.start(); t.join(3)
print("C14 caller still blocked after answer was handled:", t.is_alive(), "returned:", out)

# ---- C15: two threads, repeating random source, switch between `not in` and `append`
gate = threading.Barrier(2, timeout=5)
class R(bytes):
    armed = True
    def __eq__(self, other):
        return bytes.__eq__(self, other)
    __hash__ = bytes.__hash__
DiameterRequest.hop_by_hop_identifiers.clear(); DiameterRequest.end_to_end_identifiers.clear()
class Registry(list):       # observe the check/append window without changing list semantics
    def __contains__(self, x):
        r = list.__contains__(self, x)
        if isinstance(x, R):
            try: gate.wait()     # both threads have evaluated `not in` before either appends
            except threading.BrokenBarrierError: pass
        return r
DiameterRequest.hop_by_hop_identifiers = Registry()
real = os.urandom
calls = {"n":0}
def fake(n):
    calls["n"] += 1
    return R(b"\x00\x00\x00\x07") if calls["n"] in (1,2) else real(n)   # hop-by-hop draws of both threads repeat
import bromelia.base as base
base.os.urandom = fake
ids = []
def mk(): ids.append(DiameterRequest(command_code=1, application_id=0).header.hop_by_hop)
t1 = threading.Thread(target=mk); t2 = threading.Thread(target=mk); t1.start(); t2.start(); t1.join(10); t2.join(10)
print("C15 hop-by-hop ids:", [bytes(i).hex() for i in ids], "duplicate:", len(set(map(bytes,ids))) < len(ids))
os._exit(0)
