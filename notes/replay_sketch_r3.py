import sys, threading, selectors, time
sys.dont_write_bytecode = True
from bromelia.base import *
from bromelia.avps import *
from bromelia.constants import *
from bromelia.messages import *
import bromelia.setup as S, bromelia.transport as T, bromelia._internal_utils as iu
cfg = {"MODE":"SERVER","TRANSPORT_TYPE":"TCP","APPLICATIONS":[], "LOCAL_NODE_HOSTNAME":"srv.x","LOCAL_NODE_REALM":"x","LOCAL_NODE_IP_ADDRESS":"127.0.0.1","LOCAL_NODE_PORT":3868,
 "PEER_NODE_HOSTNAME":"peer.y","PEER_NODE_REALM":"y","PEER_NODE_IP_ADDRESS":"127.0.0.2","PEER_NODE_PORT":3868,"WATCHDOG_TIMEOUT":30}
conn = iu._convert_config_to_connection_obj(cfg)

class FakeSock:
    def __init__(self, chunk): self.sent=b""; self.chunk=chunk
    def send(self, b):
        k = min(self.chunk, len(b)); self.sent += b[:k]; return k
    def fileno(self): return 0
class FakeSel:
    def __init__(self): self.data=None; self.mask=0
    def modify(self, sock, mask, data=None): self.mask=mask; self.data=data
    def select(self, timeout=None):
        K = selectors.SelectorKey(fileobj=None, fd=0, events=self.mask, data=self.data)
        return [(K, self.mask & selectors.EVENT_WRITE)] if self.mask & selectors.EVENT_WRITE else []
def one_iter(t):   # body of TcpConnection._run, one iteration (real methods)
    t.events = t.selector.select(timeout=0)
    for key, mask in t.events:
        if key.data is not None: t.data_stream += key.data
        if mask & selectors.EVENT_WRITE: t.write()
        if mask & selectors.EVENT_READ: t.read()

# C05 (3): partial write duplicates the attached stream
t = T.TcpConnection("x", 1); t.sock = FakeSock(chunk=10); t.selector = FakeSel(); t.is_connected=True
Smsg = bytes(range(25))
t._set_selector_events_mask("rw", Smsg)
for _ in range(6): one_iter(t)
t._set_selector_events_mask("rw", b"TAIL")
for _ in range(6): one_iter(t)
print("C05 partial-write wire:", t.sock.sent == Smsg + b"TAIL", len(t.sock.sent), "expected", len(Smsg)+4)

# C05 (2): put-back reorders
a = S.DiameterAssociation(conn, None)
class TR:  # stub transport
    is_connected=True
    def __init__(s): s.streams=[]
    def is_write_mode(s): return False
    def _set_selector_events_mask(s, mode, stream=None): s.streams.append(stream)
a.transport = TR()
def big(n, tag):
    return DiameterMessage(header=DiameterHeader(command_code=tag), avps=[DiameterAVP(code=1, data=bytes(n))])
A, B, C = big(200*1024, 1), big(100*1024, 2), big(1024, 3)
for m in (A,B,C): a.put_message_into_send_queue(m)
a.send_message_from_queue(); a.send_message_from_queue()
order = []
for s in a.transport.streams:
    for m in DiameterMessage.load(s): order.append(m.header.get_command_code())
print("C05 batching order (submitted 1,2,3):", order)

# C04 (1): split message
cer = CER().dump()
a2 = S.DiameterAssociation(conn, None)
class TR2:
    is_connected=True; _stop_threads=False
    def __init__(s): s._recv_data_stream=b""; s._recv_data_available=threading.Event()
a2.transport = TR2()
def worker_step(a):   # body of recv_message_from_queue, one iteration, same statements
    import copy
    if not a.lock.acquire(timeout=1): raise RuntimeError('LOCK-STILL-HELD')
    data_stream = copy.copy(a.transport._recv_data_stream); a.transport._recv_data_stream = b""; a.transport._recv_data_available.clear()
    try:
        msgs = DiameterMessage.load(data_stream)
        for msg in msgs: a._recv_messages.put(msg)
    except S.AVPParsingError: pass
    a.lock.release()
res=[]
for part in (cer[:10], cer[10:]):
    a2.transport._recv_data_stream += part
    try: worker_step(a2); res.append("ok")
    except BaseException as e: res.append(type(e).__name__)
print("C04 split CER:", res, "delivered", a2._recv_messages.qsize(), "lock left held:", a2.lock.locked())
