import sys
sys.dont_write_bytecode = True
from bromelia.base import *
from bromelia.avps import *
from bromelia.constants import *
import bromelia._internal_utils as iu
ma = DiameterMessage(avps=[SessionIdAVP("h1"), OriginHostAVP("h1")]); mb = DiameterMessage(avps=[SessionIdAVP("h1"), OriginHostAVP("h1")])
ma.update_avps({"origin_host": "new"}); mb.update_avps({"origin_host": "new"})
print("C16 same-second identity switch:", ma.session_id_avp.data, mb.session_id_avp.data, ma.session_id_avp.data == mb.session_id_avp.data)
cfg = {"MODE":"SERVER","TRANSPORT_TYPE":"TCP","APPLICATIONS":"abc", "LOCAL_NODE_HOSTNAME":"srv.x","LOCAL_NODE_REALM":"x","LOCAL_NODE_IP_ADDRESS":"127.0.0.1","LOCAL_NODE_PORT":3868,
 "PEER_NODE_HOSTNAME":"peer.y","PEER_NODE_REALM":"y","PEER_NODE_IP_ADDRESS":"127.0.0.2","PEER_NODE_PORT":3868,"WATCHDOG_TIMEOUT":30}
try: iu._convert_config_to_connection_obj(cfg)
except BaseException as e: print("C19 apps str:", type(e).__name__)
cfg["APPLICATIONS"]=[]; cfg["LOCAL_NODE_IP_ADDRESS"]=16909060
print("C19 ip int accepted:", iu._convert_config_to_connection_obj(cfg).local_node.ip_address)
from bromelia.config import Config
c2 = dict(cfg); c2["TRANSPORT_TYPE"] = ""; print("C19 falsy transport via Config:", Config(c2)["TRANSPORT_TYPE"])
def f(a, b=2, *, c=3, **kwargs):
    return list(locals().keys())
print("locals order:", f(1, z=9))
def g(self, b=None, a=None, **kwargs):
    x = 1
    return list(locals().keys())
print("locals order2:", g(0))
# YAML transport carry-over
import tempfile, os, yaml
spec = {"api_version":"v1","name":"x","spec":[
 {"mode":"client","transport_type":"sctp","applications":[{"vendor_id":"VENDOR_ID_3GPP","app_id":"DIAMETER_APPLICATION_S6a"}],"local":{"hostname":"a","realm":"r","ip_address":"127.0.0.1","port":1},"peer":{"hostname":"b","realm":"r","ip_address":"127.0.0.2","port":2},"watchdog_timeout":30},
 {"mode":"server","applications":[{"vendor_id":"VENDOR_ID_3GPP","app_id":"DIAMETER_APPLICATION_S6a"}],"local":{"hostname":"a","realm":"r","ip_address":"127.0.0.1","port":1},"peer":{"hostname":"b","realm":"r","ip_address":"127.0.0.2","port":2},"watchdog_timeout":30}]}
p = tempfile.mktemp(suffix=".yaml"); open(p,"w").write(yaml.dump(spec))
import bromelia.bromelia as bb
cs = iu._convert_file_to_config(p, vars(bb)); os.unlink(p)
print("C19 yaml transports:", [c["TRANSPORT_TYPE"] for c in cs])
